package checks

import (
	"context"
	"fmt"
	"sort"
	"testing"
	"time"

	"google.golang.org/protobuf/proto"
	"pgregory.net/rapid"

	"github.com/prometheus/alertmanager/silence"

	"verif/harness/pbt"
	"verif/harness/ref"
)

// ------------------------------------------------------------------ scenario

type c09Pump struct {
	Pick int  `json:"pick"`           // which queued message (index mod queue length)
	Keep bool `json:"keep,omitempty"` // leave a copy in the queue: it will be delivered again (at most twice per message)
}

type c09E2EStep struct {
	GapMs int64     `json:"gap_ms"`
	Kind  string    `json:"kind"`           // api | pump | pushpull
	On    int       `json:"on,omitempty"`   // api: instance (0 = A); pushpull: receiver
	From  int       `json:"from,omitempty"` // pushpull: sender
	Op    *c09APIOp `json:"op,omitempty"`
	Pumps []c09Pump `json:"pumps,omitempty"`
}

type c09E2EScenario struct {
	RetentionMs int64        `json:"retention_ms"`
	Steps       []c09E2EStep `json:"steps"`
	Final       []c09Pump    `json:"final"` // order of the final pump to quiescence
	FinalGapMs  int64        `json:"final_gap_ms"`
}

type c09Msg struct {
	from, to int
	b        []byte
	kept     int
}

// ------------------------------------------------------------------ executor

func c09RunE2E(sc c09E2EScenario) (res pbt.Result) {
	c09Prelude()
	w := newC09World()
	nontrivial := false
	bubble(func() {
		defer func() {
			if r := recover(); r != nil {
				w.fail(pbt.V("panic", "panic while executing the case: %v", r))
			}
		}()
		nontrivial = c09E2EBody(sc, w, &res)
	})
	res.Violations = w.viol
	if w.overflow {
		res.Violations = nil
		res.Excluded++
	}
	classes := make([]string, 0, len(w.classes))
	for c := range w.classes {
		classes = append(classes, c)
	}
	sort.Strings(classes)
	res.Class(classes...)
	res.NonTrivial = nontrivial
	return res
}

func c09E2EBody(sc c09E2EScenario, w *c09World, res *pbt.Result) bool {
	// retention beyond the horizon of the case: a connected instance receives
	// every update long before it would be past retention
	ret := time.Duration(max(sc.RetentionMs, 24*3_600_000)) * time.Millisecond
	names := []string{"A", "B", "C"}
	var insts []*c09Inst
	for _, n := range names {
		insts = append(insts, w.newInst(n, ret))
	}
	var queue []c09Msg
	enqueue := func(from int, payloads [][]byte) {
		for _, b := range payloads {
			for to := range insts {
				if to != from {
					queue = append(queue, c09Msg{from: from, to: to, b: b})
				}
			}
		}
	}
	versOf := func(b []byte, who string) ([]int, bool) {
		ms, err := c09Decode(b)
		if err != nil {
			w.fail(pbt.V("broadcast-undecodable", "bytes broadcast by %s do not decode: %v", who, err))
			return nil, false
		}
		var idx []int
		for _, m := range ms {
			i, ok := w.byKey[c09Key{m.Silence.Id, m.Silence.UpdatedAt.AsTime().UnixNano()}]
			if !ok {
				w.fail(pbt.V("state-unknown-version", "%s sends id %s with updated_at %s, which no API call produced", who, w.idName(m.Silence.Id), m.Silence.UpdatedAt.AsTime()))
				return nil, false
			}
			idx = append(idx, i)
		}
		return idx, true
	}
	ms := int64(0)
	deliveries := 0
	budget := func() int { return 60 + 40*len(w.vers) }
	// deliverMsg hands queue[k] to its destination at the current instant (no
	// time passes between the deliveries of one pump step: every delivery is
	// its own step instant within the same millisecond).
	deliverMsg := func(k int, keep bool) {
		m := queue[k]
		if keep && m.kept < 2 {
			queue[k].kept++
			w.classes["duplicate-delivery-planned"] = true
		} else {
			queue = append(queue[:k], queue[k+1:]...)
		}
		idx, ok := versOf(m.b, insts[m.from].name)
		if !ok {
			return
		}
		now := w.tick(ms)
		in := insts[m.to]
		w.deliver(in, m.b, idx, now, "gossip from "+insts[m.from].name)
		deliveries++
		// what the receiver re-broadcasts goes to everybody else, as
		// cluster.Channel.Broadcast does
		enqueue(m.to, in.lastSent)
		w.observe(in, now, "delivery")
	}

	for _, st := range sc.Steps {
		ms += max(st.GapMs, 0)
		switch st.Kind {
		case "api":
			if st.Op == nil {
				continue
			}
			on := c09Abs(st.On) % 3
			in := insts[on]
			now := w.tick(ms)
			em, outcome := w.api(in, *st.Op, now)
			w.classes["api-"+st.Op.Kind+"-"+outcome] = true
			if outcome == "no-change" && !c09E2ENoChangeOK(in, *st.Op, now) {
				// every update time in this check is a past instant of the same
				// clock, so an accepted call must produce a newer version — and
				// what is never broadcast can never become effective elsewhere
				w.fail(pbt.V("api-ok-but-nothing-broadcast", "%s: %s returned success but nothing was handed to the broadcast function", in.name, st.Op.Kind).With("op", st.Op.Kind))
			}
			if on != 0 && len(em) > 0 {
				w.classes["api-on-peer"] = true
			}
			enqueue(on, in.lastSent)
			w.observe(in, now, "api "+st.Op.Kind)
		case "pump":
			for _, p := range st.Pumps {
				if len(queue) == 0 || len(w.viol) > 0 {
					break
				}
				deliverMsg(c09Abs(p.Pick)%len(queue), p.Keep)
			}
		case "pushpull":
			from, to := c09Abs(st.From)%3, c09Abs(st.On)%3
			if from == to {
				continue
			}
			b, err := insts[from].s.MarshalBinary()
			if err != nil || len(b) == 0 {
				continue
			}
			idx, ok := versOf(b, insts[from].name)
			if !ok {
				continue
			}
			now := w.tick(ms)
			w.classes["pushpull"] = true
			w.deliver(insts[to], b, idx, now, "full state of "+insts[from].name)
			enqueue(to, insts[to].lastSent)
			w.observe(insts[to], now, "push/pull")
		}
		if w.overflow {
			return false
		}
	}
	// final pump to quiescence
	ms += max(sc.FinalGapMs, 0)
	for k := 0; len(queue) > 0 && len(w.viol) == 0; k++ {
		if w.overflow {
			return false
		}
		if deliveries > budget() {
			w.fail(pbt.V("gossip-storm", "no quiescence: %d deliveries for %d versions on 3 instances and %d messages still queued (every re-broadcast must be caused by a state change)", deliveries, len(w.vers), len(queue)).
				With("deliveries", deliveries))
			break
		}
		p := c09Pump{}
		if len(sc.Final) > 0 {
			p = sc.Final[k%len(sc.Final)]
		}
		deliverMsg(c09Abs(p.Pick)%len(queue), p.Keep)
	}
	if len(w.viol) > 0 {
		return false
	}

	// ---- judgement at quiescence
	now := w.tick(ms)
	ctx := context.Background()
	var views []c09View
	var mv [][]bool
	for _, in := range insts {
		views = append(views, w.observe(in, now, "quiescence"))
		mv = append(mv, w.mutes(in))
	}
	// what must be effective everywhere: per id the newest version any API call produced
	var all []ref.C09Version
	for i, v := range w.vers {
		all = append(all, v.ref(i))
	}
	want := ref.C09Converged(all, now)
	a := insts[0]
	for k, in := range insts {
		for _, id := range w.idOrder {
			exp, has := want[id]
			got, ok := views[k].sils[id]
			switch {
			case has != ok:
				w.fail(pbt.V("e2e-not-effective", "%s: id %s present=%v at quiescence, expected present=%v", in.name, w.idName(id), ok, has))
			case has && got.UpdatedAt.AsTime().UnixNano() != exp.Stamp:
				w.fail(pbt.V("e2e-not-effective", "%s: id %s has updated_at %s at quiescence; the newest version produced through an API has %s", in.name, w.idName(id), got.UpdatedAt.AsTime(), c09TS(exp.Stamp)))
			case has && !proto.Equal(got, w.vers[exp.Ref].Mesh.Silence):
				w.fail(pbt.V("e2e-content-differs", "%s: id %s differs from the version the API call produced:\n got  %v\n want %v", in.name, w.idName(id), got, w.vers[exp.Ref].Mesh.Silence))
			}
		}
		if k == 0 {
			continue
		}
		if len(views[k].sils) != len(views[0].sils) {
			w.fail(pbt.V("e2e-query-differs", "%s: Query() returns %d silences, %s returns %d", in.name, len(views[k].sils), a.name, len(views[0].sils)))
		}
		for id, sa := range views[0].sils {
			if sb, ok := views[k].sils[id]; !ok || !proto.Equal(sa, sb) {
				w.fail(pbt.V("e2e-query-differs", "%s: Query() result for id %s differs from %s's:\n %s %v\n %s %v", in.name, w.idName(id), a.name, a.name, sa, in.name, sb))
			}
		}
		for _, st := range []silence.SilenceState{silence.SilenceStateActive, silence.SilenceStatePending, silence.SilenceStateExpired} {
			ia, ib := c09StateIDs(ctx, a, st), c09StateIDs(ctx, in, st)
			if fmt.Sprint(ia) != fmt.Sprint(ib) {
				w.fail(pbt.V("e2e-query-differs", "%s: Query(QState(%s)) = %d ids, %s has %d", in.name, st, len(ib), a.name, len(ia)))
			}
		}
		w.compareMutes(in.name, mv[k], mv[0], a.name)
	}
	w.compareMutes(a.name, mv[0], w.refMutes(want, now), "the reference over the newest versions produced through the APIs")
	muted := false
	for _, b := range mv[0] {
		muted = muted || b
	}
	if muted {
		w.classes["some-label-set-muted"] = true
	}
	perID := map[string]int{}
	multi := false
	for _, v := range w.vers {
		perID[v.ID]++
		if perID[v.ID] >= 2 {
			multi = true
		}
	}
	if multi {
		w.classes["id-with>=2-versions"] = true
	}
	res.Class(fmt.Sprintf("ids=%d", min(len(w.idOrder), 5)))
	return multi && (w.classes["duplicate"] || w.classes["older-version-offered"] || w.classes["pushpull"])
}

// c09E2ENoChangeOK: the only accepted API call that legitimately changes
// nothing is expiring a silence that has already ended.
func c09E2ENoChangeOK(in *c09Inst, op c09APIOp, nowNs int64) bool {
	if op.Kind != "expire" {
		return false
	}
	cur, err := in.s.QueryOne(context.Background(), silence.QIDs(in.lastPick))
	return err == nil && cur.EndsAt.AsTime().UnixNano() < nowNs
}

func c09StateIDs(ctx context.Context, in *c09Inst, st silence.SilenceState) []string {
	sils, _, err := in.s.Query(ctx, silence.QState(st))
	if err != nil {
		return []string{"error: " + err.Error()}
	}
	ids := make([]string, 0, len(sils))
	for _, s := range sils {
		ids = append(ids, s.Id)
	}
	sort.Strings(ids)
	return ids
}

// ------------------------------------------------------------------ generator

func c09GenE2E(t *rapid.T) c09E2EScenario {
	sc := c09E2EScenario{RetentionMs: rapid.SampledFrom([]int64{24 * 3_600_000, 5 * 24 * 3_600_000}).Draw(t, "retention")}
	n := rapid.IntRange(2, map[bool]int{false: 10, true: 20}[pbt.Thorough()]).Draw(t, "nSteps")
	creates := 0
	for i := 0; i < n; i++ {
		st := c09E2EStep{GapMs: 1 + c09GenGap(t, "gap")}
		kind := rapid.SampledFrom([]string{"api", "api", "api", "api", "api", "pump", "pump", "pump", "pump", "pushpull"}).Draw(t, "stepKind")
		if i == 0 {
			kind = "api"
		}
		st.Kind = kind
		switch kind {
		case "api":
			kinds := []string{"edit", "edit", "edit", "expire", "expire", "recreate"}
			if creates < 3 {
				kinds = append(kinds, "create", "create")
			}
			if i == 0 {
				kinds = []string{"create"}
			}
			op := c09GenOp(t, kinds)
			if op.Kind == "create" || op.Kind == "recreate" {
				creates++
			}
			st.Op = &op
			if i > 0 && rapid.IntRange(0, 9).Draw(t, "onPeer") >= 7 {
				st.On = rapid.IntRange(1, 2).Draw(t, "on")
			}
		case "pump":
			k := rapid.IntRange(1, 6).Draw(t, "nPumps")
			for j := 0; j < k; j++ {
				st.Pumps = append(st.Pumps, c09Pump{Pick: rapid.IntRange(0, 15).Draw(t, "pick"), Keep: rapid.IntRange(0, 3).Draw(t, "keep") == 0})
			}
		case "pushpull":
			st.From = rapid.IntRange(0, 2).Draw(t, "from")
			st.On = rapid.IntRange(0, 2).Draw(t, "to")
		}
		sc.Steps = append(sc.Steps, st)
	}
	for i := 0; i < 12; i++ {
		sc.Final = append(sc.Final, c09Pump{Pick: rapid.IntRange(0, 15).Draw(t, "fpick"), Keep: rapid.IntRange(0, 4).Draw(t, "fkeep") == 0})
	}
	sc.FinalGapMs = c09GenGap(t, "finalGap")
	return sc
}

const c09E2ERule = "Three instances A, B, C wired like cluster peers: whatever an instance hands to its broadcast function (after a local Set/Expire or as re-gossip inside Merge) is queued for both other instances. " +
	"Generated: 2-10 steps at increasing virtual instants — API calls (create, in-place edit, matcher change = expire+recreate, expire; 70% on A, else on B/C; the two guards of api/v2.postSilencesHandler mirrored), " +
	"pump steps delivering queued messages in generated order (a message may stay queued and be delivered up to three times), push/pull of a real MarshalBinary full state — then a final pump in generated order until the queue is empty. " +
	"Retention exceeds the horizon (a connected instance receives everything in time). Oracle at quiescence: B's and C's Query() content (proto.Equal), Query by state and Silencer.Mutes over the 64-label-set universe equal A's; " +
	"every instance holds per id exactly the newest version any API call produced; A's verdicts equal the reference (active and matching); quiescence is reached within a bound linear in the number of versions (no gossip storm); " +
	"after every step each instance equals its reference LWW store and the gossip contract of C09Idempotent holds. Mutes is asked of a FRESH Silencer per label set (cold cache, F1 excluded); no uncompilable regex is generated (F9). " +
	"Non-trivial: some id has >=2 versions and a message was delivered twice, or an older version arrived after a newer one, or a full state was exchanged."

func TestC09EndToEnd(t *testing.T) {
	pbt.Run(t, pbt.Spec[c09E2EScenario]{
		Property: "C09", Name: "C09EndToEnd", Rule: c09E2ERule,
		Gen: c09GenE2E, Exec: c09RunE2E,
	})
}
