package checks

// C09Channel: "a silence created or expired through any instance's API is eventually effective on every connected
// instance", with the instances' broadcast functions wired through the real cluster.Channel (the piece that decides
// between gossip and the per-peer reliable send of oversized updates). Three connected instances and, for part of the
// history, a member that is still listed but no longer reachable (its reliable sends fail): the connected ones must
// still receive every update, small or oversized, made before, while and after that member was listed.

import (
	"context"
	"fmt"
	"strings"
	"sync"
	"testing"
	"time"

	"github.com/hashicorp/memberlist"
	"github.com/prometheus/client_golang/prometheus"
	"github.com/prometheus/common/model"
	"google.golang.org/protobuf/proto"
	"google.golang.org/protobuf/types/known/timestamppb"
	"pgregory.net/rapid"

	amcluster "github.com/prometheus/alertmanager/cluster"
	"github.com/prometheus/alertmanager/cluster/clusterpb"
	"github.com/prometheus/alertmanager/eventrecorder"
	"github.com/prometheus/alertmanager/featurecontrol"
	"github.com/prometheus/alertmanager/marker"
	"github.com/prometheus/alertmanager/matcher/compat"
	"github.com/prometheus/alertmanager/silence"
	pb "github.com/prometheus/alertmanager/silence/silencepb"

	"verif/harness/pbt"
)

type c09chOp struct {
	Kind string `json:"kind"` // create | expire | dead-joins | dead-leaves
	On   int    `json:"on"`   // instance 0..2
	Big  bool   `json:"big"`  // create: comment long enough for the oversized path
	Sil  int    `json:"sil"`  // expire: which silence (mod count)
}

type c09chScenario struct {
	DeadFirst bool      `json:"dead_first"` // the unreachable member is listed before the live ones
	Ops       []c09chOp `json:"ops"`
}

func genC09Channel(t *rapid.T) c09chScenario {
	sc := c09chScenario{DeadFirst: rapid.Bool().Draw(t, "deadFirst")}
	n := rapid.IntRange(3, 14).Draw(t, "n")
	dead := false
	for i := 0; i < n; i++ {
		switch k := rapid.IntRange(0, 9).Draw(t, "op"); {
		case k <= 4 || i == 0:
			sc.Ops = append(sc.Ops, c09chOp{Kind: "create", On: rapid.IntRange(0, 2).Draw(t, "on"), Big: rapid.IntRange(0, 2).Draw(t, "big") > 0})
		case k <= 6:
			sc.Ops = append(sc.Ops, c09chOp{Kind: "expire", On: rapid.IntRange(0, 2).Draw(t, "on"), Sil: rapid.IntRange(0, 9).Draw(t, "sil")})
		default:
			if dead {
				sc.Ops = append(sc.Ops, c09chOp{Kind: "dead-leaves"})
			} else {
				sc.Ops = append(sc.Ops, c09chOp{Kind: "dead-joins"})
			}
			dead = !dead
		}
	}
	return sc
}

func execC09Channel(sc c09chScenario) (res pbt.Result) {
	compat.InitFromFlags(nopLog, featurecontrol.NoopFlags{})
	const n = 3
	var mu sync.Mutex
	deadListed := false
	oversizedWhileDead, afterFailure := false, false
	stores := make([]*silence.Silences, n)
	stopc := make(chan struct{})
	defer close(stopc)
	var inflight sync.WaitGroup
	for i := 0; i < n; i++ {
		s, err := silence.New(silence.Options{Retention: time.Hour, Logger: nopLog, Metrics: prometheus.NewRegistry(), EventRecorder: eventrecorder.NopRecorder()})
		if err != nil {
			res.Fail("harness", "silence.New: %v", err)
			return res
		}
		stores[i] = s
	}
	deliver := func(j int, part []byte) {
		var p clusterpb.Part
		if err := proto.Unmarshal(part, &p); err != nil || p.Key != "sil" {
			return
		}
		if err := stores[j].Merge(p.Data); err != nil {
			mu.Lock()
			res.Add(pbt.V("merge-error", "instance %d refused an update: %v", j, err))
			mu.Unlock()
		}
	}
	for i := 0; i < n; i++ {
		i := i
		peers := func() []*memberlist.Node {
			mu.Lock()
			defer mu.Unlock()
			var ns []*memberlist.Node
			if deadListed && sc.DeadFirst {
				ns = append(ns, &memberlist.Node{Name: "dead"})
			}
			for j := 0; j < n; j++ {
				if j != i {
					ns = append(ns, &memberlist.Node{Name: fmt.Sprint(j)})
				}
			}
			if deadListed && !sc.DeadFirst {
				ns = append(ns, &memberlist.Node{Name: "dead"})
			}
			return ns
		}
		gossip := func(b []byte) {
			cp := append([]byte(nil), b...)
			inflight.Add(1)
			go func() {
				defer inflight.Done()
				for j := 0; j < n; j++ {
					if j != i {
						deliver(j, cp)
					}
				}
			}()
		}
		reliable := func(node *memberlist.Node, b []byte) error {
			if node.Name == "dead" {
				mu.Lock()
				oversizedWhileDead = true
				mu.Unlock()
				return fmt.Errorf("dial tcp: connection refused")
			}
			var j int
			fmt.Sscan(node.Name, &j)
			deliver(j, append([]byte(nil), b...))
			return nil
		}
		ch := amcluster.NewChannel("sil", gossip, peers, reliable, nopLog, stopc, prometheus.NewRegistry())
		stores[i].SetBroadcast(ch.Broadcast)
	}
	ctx := context.Background()
	var ids []string
	now := time.Now()
	settle := func() {
		// the oversize handler of a channel is a goroutine fed through a channel: give it (real) time to drain
		deadline := time.Now().Add(2 * time.Second)
		for time.Now().Before(deadline) {
			inflight.Wait()
			time.Sleep(5 * time.Millisecond)
			ok := true
			for _, id := range ids {
				ref, _, _ := stores[0].Query(ctx, silence.QIDs(id))
				for j := 1; j < n; j++ {
					got, _, _ := stores[j].Query(ctx, silence.QIDs(id))
					if len(got) != len(ref) || (len(got) == 1 && !proto.Equal(got[0], ref[0])) {
						ok = false
					}
				}
				if len(ref) == 0 {
					ok = false
				}
			}
			if ok {
				return
			}
		}
	}
	for i, op := range sc.Ops {
		switch op.Kind {
		case "dead-joins", "dead-leaves":
			mu.Lock()
			deadListed = op.Kind == "dead-joins"
			mu.Unlock()
		case "create":
			comment := "c"
			if op.Big {
				comment = strings.Repeat("long comment ", 90) // > 700 bytes on the wire
			}
			s := &pb.Silence{MatcherSets: []*pb.MatcherSet{{Matchers: []*pb.Matcher{{Type: pb.Matcher_EQUAL, Name: "sid", Pattern: fmt.Sprint("s", i)}}}},
				StartsAt: timestamppb.New(now), EndsAt: timestamppb.New(now.Add(time.Hour)), CreatedBy: "c09", Comment: comment}
			if err := stores[op.On].Set(ctx, s); err != nil {
				res.Fail("harness", "Set: %v", err)
				return res
			}
			ids = append(ids, s.Id)
			mu.Lock()
			if oversizedWhileDead && op.Big {
				afterFailure = true
			}
			mu.Unlock()
		case "expire":
			if len(ids) == 0 {
				continue
			}
			if err := stores[op.On].Expire(ctx, ids[op.Sil%len(ids)]); err != nil {
				continue // unknown there: it never arrived; the final comparison reports it
			}
		}
		settle()
	}
	settle()
	for _, id := range ids {
		var ref *pb.Silence
		for j := 0; j < n; j++ {
			got, _, err := stores[j].Query(ctx, silence.QIDs(id))
			if err != nil || len(got) != 1 {
				res.Add(pbt.V("update-never-arrived", "silence %s, created through one instance's API, is not held by connected instance %d two seconds after the last operation (%v)", id, j, err).With("after_failed_send", afterFailure))
				continue
			}
			if ref == nil {
				ref = got[0]
			} else if !proto.Equal(ref, got[0]) {
				res.Add(pbt.V("instances-differ", "silence %s: instance %d holds ends_at %s updated_at %s, instance 0 holds ends_at %s updated_at %s", id, j, got[0].EndsAt.AsTime().Format("15:04:05.000"), got[0].UpdatedAt.AsTime().Format("15:04:05.000"), ref.EndsAt.AsTime().Format("15:04:05.000"), ref.UpdatedAt.AsTime().Format("15:04:05.000")))
			}
		}
	}
	// effect: an alert covered by an active silence is muted everywhere or nowhere
	for i := range sc.Ops {
		lset := model.LabelSet{"sid": model.LabelValue(fmt.Sprint("s", i))}
		v0 := silence.NewSilencer(stores[0], nopLog, eventrecorder.NopRecorder()).Mutes(marker.WithContext(ctx, marker.NewAlertMarker()), lset)
		for j := 1; j < n; j++ {
			if v := silence.NewSilencer(stores[j], nopLog, eventrecorder.NopRecorder()).Mutes(marker.WithContext(ctx, marker.NewAlertMarker()), lset); v != v0 {
				res.Add(pbt.V("mutes-differ", "Mutes(%v) is %v on instance 0 and %v on instance %d", lset, v0, v, j))
			}
		}
	}
	res.NonTrivial = oversizedWhileDead
	if oversizedWhileDead {
		res.Class("oversized-update-while-a-listed-member-is-unreachable")
	}
	if afterFailure {
		res.Class("oversized-update-after-a-failed-send")
	}
	return res
}

func TestC09Channel(t *testing.T) {
	pbt.Run(t, pbt.Spec[c09chScenario]{
		Property: "C09", Name: "C09Channel",
		Rule: "three silence stores whose broadcast functions go through real cluster.Channel objects (gossip delivered to both others; oversized updates by the per-peer reliable send) plus a member that is listed (first or last in the member list) but unreachable for parts of the history; 3-14 ops: create (comment small, or long enough for the oversized path) and expire through any instance, the unreachable member joining / leaving the list. Real time: after every op up to 2 s are given for the updates to arrive. Oracle: every silence is held by all three connected instances with equal content, and Mutes agrees. Non-trivial: an oversized update was sent while the unreachable member was listed.",
		Gen:  genC09Channel, Exec: execC09Channel,
	})
}
