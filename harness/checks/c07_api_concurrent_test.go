package checks

// C07ApiConcurrent: "the receivers shown by the API … and the dispatcher's actual groups agree" while the configuration
// is being reloaded: api.Update (the call the reload path makes) races GET /api/v2/alerts on the real scheduler. The
// updater is the only writer: a request it makes itself after an Update has returned must show, for every alert, the
// receivers the tree just installed selects; every concurrent response must show, per alert, the receivers of one of
// the installed trees.

import (
	"context"
	"encoding/json"
	"fmt"
	"net/http"
	"net/http/httptest"
	"runtime"
	"sort"
	"strings"
	"sync"
	"sync/atomic"
	"testing"
	"time"

	"github.com/prometheus/client_golang/prometheus"
	"github.com/prometheus/common/model"
	"pgregory.net/rapid"

	"github.com/prometheus/alertmanager/alert"
	apiv2 "github.com/prometheus/alertmanager/api/v2"
	"github.com/prometheus/alertmanager/config"
	"github.com/prometheus/alertmanager/dispatch"
	"github.com/prometheus/alertmanager/eventrecorder"
	"github.com/prometheus/alertmanager/featurecontrol"
	"github.com/prometheus/alertmanager/matcher/compat"
	"github.com/prometheus/alertmanager/provider/mem"

	"verif/harness/pbt"
)

type c07acScenario struct {
	Alerts  int   `json:"alerts"`
	Readers int   `json:"readers"`
	Rounds  int   `json:"rounds"`
	Gaps    []int `json:"gaps"`
}

func genC07ApiConcurrent(t *rapid.T) c07acScenario {
	sc := c07acScenario{Alerts: rapid.SampledFrom([]int{20, 200, 1500}).Draw(t, "alerts"), Readers: rapid.IntRange(1, 4).Draw(t, "readers"), Rounds: rapid.IntRange(5, 30).Draw(t, "rounds")}
	for i := 0; i < 3; i++ {
		sc.Gaps = append(sc.Gaps, rapid.SampledFrom([]int{0, 0, 1, 5, 50}).Draw(t, "gap"))
	}
	return sc
}

// three trees that route the same alerts differently (team label; one tree uses continue)
var c07acConfigs = []string{
	"route:\n  receiver: default\n  routes:\n  - matchers: ['team=\"a\"']\n    receiver: team-a\n  - matchers: ['team=\"b\"']\n    receiver: team-b\nreceivers:\n- name: default\n- name: team-a\n- name: team-b\n- name: oncall\n",
	"route:\n  receiver: default\n  routes:\n  - matchers: ['team=\"a\"']\n    receiver: oncall\n    continue: true\n  - matchers: ['team=~\"a|b\"']\n    receiver: team-a\nreceivers:\n- name: default\n- name: team-a\n- name: team-b\n- name: oncall\n",
	"route:\n  receiver: oncall\nreceivers:\n- name: default\n- name: team-a\n- name: team-b\n- name: oncall\n",
}

func c07acGet(api *apiv2.API) (map[string]string, int) {
	rec := httptest.NewRecorder()
	api.Handler.ServeHTTP(rec, httptest.NewRequest(http.MethodGet, "/api/v2/alerts", nil))
	if rec.Code != http.StatusOK {
		return nil, rec.Code
	}
	var got []struct {
		Labels    map[string]string `json:"labels"`
		Receivers []struct {
			Name string `json:"name"`
		} `json:"receivers"`
	}
	if err := json.Unmarshal(rec.Body.Bytes(), &got); err != nil {
		return nil, -1
	}
	out := map[string]string{}
	for _, g := range got {
		var names []string
		for _, r := range g.Receivers {
			names = append(names, r.Name)
		}
		sort.Strings(names)
		out[g.Labels["i"]] = strings.Join(names, ",")
	}
	return out, 200
}

func execC07ApiConcurrent(sc c07acScenario) (res pbt.Result) {
	compat.InitFromFlags(nopLog, featurecontrol.NoopFlags{})
	ctx, cancel := context.WithCancel(context.Background())
	defer cancel()
	alerts, err := mem.NewAlerts(ctx, time.Hour, 0, nil, nopLog, eventrecorder.NopRecorder(), prometheus.NewRegistry(), featurecontrol.NoopFlags{})
	if err != nil {
		res.Fail("harness", "mem.NewAlerts: %v", err)
		return res
	}
	defer alerts.Close()
	now := time.Now()
	teams := []string{"a", "b", "c"}
	lsets := map[string]model.LabelSet{}
	for i := 0; i < sc.Alerts; i++ {
		ls := model.LabelSet{"alertname": "A", "team": model.LabelValue(teams[i%3]), "i": model.LabelValue(fmt.Sprint(i))}
		lsets[fmt.Sprint(i)] = ls
		alerts.Put(ctx, &alert.Alert{Alert: model.Alert{Labels: ls, StartsAt: now.Add(-time.Minute), EndsAt: now.Add(time.Hour)}, UpdatedAt: now})
	}
	var cfgs []*config.Config
	var want []map[string]string // per config: alert -> receivers (sorted, joined)
	for _, y := range c07acConfigs {
		c, err := config.Load(y)
		if err != nil {
			res.Fail("harness", "config.Load: %v", err)
			return res
		}
		cfgs = append(cfgs, c)
		root := dispatch.NewRoute(c.Route, nil)
		w := map[string]string{}
		for k, ls := range lsets {
			var names []string
			for _, r := range root.Match(ls) {
				names = append(names, r.RouteOpts.Receiver)
			}
			sort.Strings(names)
			w[k] = strings.Join(names, ",")
		}
		want = append(want, w)
	}
	groups := func(context.Context, func(*dispatch.Route) bool, func(*alert.Alert, time.Time) bool) (dispatch.AlertGroups, map[model.Fingerprint][]string, error) {
		return nil, nil, nil
	}
	api, err := apiv2.NewAPI(alerts, groups, func(string, string) ([]string, bool) { return nil, false }, nil, nil, nopLog, prometheus.NewRegistry())
	if err != nil {
		res.Fail("harness", "NewAPI: %v", err)
		return res
	}
	status := func(context.Context, model.LabelSet) {}
	api.Update(cfgs[0], status)
	var stop, failed atomic.Bool
	var viol []pbt.Violation
	var mtx sync.Mutex
	var wg sync.WaitGroup
	reads := int64(0)
	for r := 0; r < sc.Readers; r++ {
		wg.Go(func() {
			for !stop.Load() {
				got, code := c07acGet(api)
				atomic.AddInt64(&reads, 1)
				bad := ""
				if code != 200 || len(got) != sc.Alerts {
					bad = fmt.Sprintf("HTTP %d with %d of %d alerts", code, len(got), sc.Alerts)
				} else {
					for k, g := range got {
						ok := false
						for _, w := range want {
							ok = ok || w[k] == g
						}
						if !ok {
							bad = fmt.Sprintf("alert %v with receivers [%s], which none of the installed trees selects", lsets[k], g)
							break
						}
					}
				}
				if bad != "" {
					mtx.Lock()
					if len(viol) < 3 {
						viol = append(viol, pbt.V("api-receivers-foreign", "GET /api/v2/alerts during reloads answered %s", bad))
					}
					mtx.Unlock()
					failed.Store(true)
					return
				}
			}
		})
	}
	checked := 0
	for round := 0; round < sc.Rounds && !failed.Load(); round++ {
		for i := range cfgs {
			api.Update(cfgs[i], status)
			for g := 0; g < sc.Gaps[i%len(sc.Gaps)]; g++ {
				runtime.Gosched()
			}
			got, code := c07acGet(api)
			checked++
			if code != 200 {
				mtx.Lock()
				viol = append(viol, pbt.V("api-status", "GET /api/v2/alerts answered %d", code))
				mtx.Unlock()
				failed.Store(true)
				break
			}
			for k, w := range want[i] {
				if got[k] != w {
					mtx.Lock()
					viol = append(viol, pbt.V("api-receivers-stale", "round %d: after Update(tree %d) returned, GET /api/v2/alerts shows alert %v with receivers [%s]; the installed tree selects [%s] (no other update ran)", round, i, lsets[k], got[k], w))
					mtx.Unlock()
					failed.Store(true)
					break
				}
			}
			if failed.Load() {
				break
			}
		}
	}
	stop.Store(true)
	wg.Wait()
	for _, v := range viol {
		res.Add(v)
	}
	res.NonTrivial = checked > 0 && atomic.LoadInt64(&reads) > 0
	res.Class(fmt.Sprintf("alerts-%d", sc.Alerts))
	return res
}

func TestC07ApiConcurrent(t *testing.T) {
	pbt.Run(t, pbt.Spec[c07acScenario]{
		Property: "C07", Name: "C07ApiConcurrent",
		Rule: "a real provider with 20 / 200 / 1500 alerts of three teams behind the real API; three routing trees that route them differently (one with continue) are installed in turn with api.Update for 5-30 rounds with 0-50 scheduler yields in between while 1-4 goroutines request GET /api/v2/alerts on the real scheduler. The updater's own request after an Update returned must show every alert with the receivers of the tree just installed; every concurrent response must show each alert with the receivers of one of the three trees. Built with -race in the thorough tier. Non-trivial: at least one concurrent read happened.",
		Gen:  genC07ApiConcurrent, Exec: execC07ApiConcurrent,
	})
}

// C13ApiReload: the same runs judged for C13 ("GET /api/v2/alerts returns exactly the alerts whose end time has not
// passed, with … the receivers routing selects"): while the configuration is being reloaded every request is answered,
// lists every stored alert once, and shows it with the receivers of a configuration that was in force.
func TestC13ApiReload(t *testing.T) {
	pbt.Run(t, pbt.Spec[c07acScenario]{
		Property: "C13", Name: "C13ApiReload",
		Rule: "the runs of C07ApiConcurrent (a real provider with 20 / 200 / 1500 alerts behind the real API, api.Update installing three routing trees in turn while 1-4 goroutines request GET /api/v2/alerts on the real scheduler) judged for C13: every request is answered with status 200, lists every stored alert exactly once, and each with the receivers of one of the installed trees (the updater's own request: of the tree just installed). A request or an Update that never returns because of a lock nobody releases is a violation (kind hang). Non-trivial: at least one concurrent read happened.",
		Gen:  genC07ApiConcurrent, Exec: execC07ApiConcurrent,
	})
}
