package checks

import (
	"encoding/json"
	"fmt"
	"os"
	"testing"

	"verif/harness/sim"
)

// TestSimDump prints the timeline of the scenario in the replay file named by VERIF_DUMP.
func TestSimDump(t *testing.T) {
	p := os.Getenv("VERIF_DUMP")
	if p == "" {
		t.Skip("VERIF_DUMP not set")
	}
	b, err := os.ReadFile(p)
	if err != nil {
		t.Fatal(err)
	}
	var rf struct {
		Scenario sim.Scenario `json:"scenario"`
	}
	if err := json.Unmarshal(b, &rf); err != nil {
		t.Fatal(err)
	}
	tr := sim.Run(t, &rf.Scenario)
	fmt.Println(sim.Dump(&rf.Scenario, tr))
	vs, st := sim.Judge(&rf.Scenario, tr)
	fmt.Printf("stats %+v\n", st)
	for _, v := range vs {
		fmt.Printf("[%s] %s\n", v.Kind, v.Message)
	}
}
