package checks

import (
	"encoding/json"
	"fmt"
	"os"
	"testing"

	"verif/harness/sim"
)

// TestSimDump prints the timeline of the scenario in the replay file named by VERIF_DUMP.
func TestSimDump(t *testing.T) {
	p := os.Getenv("VERIF_DUMP")
	if p == "" {
		t.Skip("VERIF_DUMP not set")
	}
	b, err := os.ReadFile(p)
	if err != nil {
		t.Fatal(err)
	}
	var rf struct {
		Scenario sim.Scenario `json:"scenario"`
	}
	if err := json.Unmarshal(b, &rf); err != nil {
		t.Fatal(err)
	}
	tr := sim.Run(t, &rf.Scenario)
	fmt.Println(sim.Dump(&rf.Scenario, tr))
	if os.Getenv("VERIF_DUMP_NFLOG") != "" {
		for _, smp := range tr.Samples {
			fmt.Printf("sample step %d at %s:\n", smp.Step, smp.At.Format("15:04:05.000"))
			for _, e := range smp.Nflog {
				fmt.Printf("    %+v\n", e)
			}
		}
	}
	vs, st := sim.Judge(&rf.Scenario, tr)
	fmt.Printf("stats %+v\n", st)
	for _, v := range vs {
		fmt.Printf("[%s] %s\n", v.Kind, v.Message)
	}
}

func TestSimDumpCluster(t *testing.T) {
	p := os.Getenv("VERIF_DUMP")
	if p == "" {
		t.Skip("VERIF_DUMP not set")
	}
	b, _ := os.ReadFile(p)
	var rf struct {
		Scenario sim.ClusterScenario `json:"scenario"`
	}
	if err := json.Unmarshal(b, &rf); err != nil {
		t.Fatal(err)
	}
	sc := &rf.Scenario
	tr := sim.RunCluster(t, sc)
	fmt.Println(sc.Config.YAML())
	fmt.Printf("n=%d positions=%v fates=%+v pp=%d opts=%+v tail=%d\nlabel sets %v\n", sc.N, sc.Positions, sc.Fates, sc.PushPull, sc.Opts, sc.Tail, sc.LabelSets)
	for i, st := range sc.Steps {
		fmt.Printf("%s STEP %d %s inst=%d", tr.StepAt[i].Format("15:04:05.000"), i, st.Op, st.Inst)
		for _, a := range st.Alerts {
			e := "timeout"
			if a.End != nil {
				e = fmt.Sprintf("end%+d", *a.End)
			}
			fmt.Printf(" [%v %s]", sc.LabelSets[a.LS], e)
		}
		if st.Behave != nil {
			fmt.Printf(" %+v", *st.Behave)
		}
		fmt.Printf(" %s a=%d b=%d up=%v\n", st.Restart, st.A, st.B, st.Up)
	}
	for _, a := range tr.Attempts {
		fmt.Printf("%s   inst %d attempt %s/%d gk=%s flush=%d tick=%s done=%s %s %q %v entry=%+v\n", a.T.Format("15:04:05.000"), a.Inst, a.Receiver, a.Idx, a.GroupKey, a.FlushID, a.Tick.Format("15:04:05.000"), a.Done.Format("15:04:05.000"), a.Outcome, a.Reason, a.Alerts, a.Entry)
	}
	fmt.Println("end", tr.End.Format("15:04:05.000"), tr.Net)
	vs, st := sim.JudgeCluster(sc, tr)
	fmt.Printf("stats %+v\n", st)
	for _, v := range vs {
		fmt.Printf("[%s] %s\n", v.Kind, v.Message)
	}
}
