package checks

import (
	"slices"
	"testing"

	"pgregory.net/rapid"

	"verif/harness/pbt"
)

// C01StartSchedule: the E4 schedules of C06Schedule with a dispatcher whose start time lies a few seconds ahead (what
// cmd/alertmanager does while the cluster settles). Groups created before the start instant are only run from it on;
// an ingestion worker that is inside groupAlert while the start instant passes (parked at group.loaded or
// group.created, released afterwards) must still leave a group that runs: the firing alert it carries is notified
// within start delay + group_wait + group_interval of everything being released, and once all alerts ended no group
// is left over.
func genC01Start(t *rapid.T) c06Scenario {
	sc := genC06(t)
	sc.StartDelay = rapid.SampledFrom([]int{2, 4, 9}).Draw(t, "startDelay")
	if !slices.Contains(sc.Park, "group.loaded") && !slices.Contains(sc.Park, "group.created") {
		sc.Park = append(sc.Park, rapid.SampledFrom([]string{"group.loaded", "group.created"}).Draw(t, "creatorPark"))
	}
	// bias: a long-lived alert put before the start instant, time passing over it, then releases
	pre := []c06Step{{Op: "put", Alert: rapid.IntRange(0, 3).Draw(t, "preAlert"), EndOff: 300}}
	if rapid.Bool().Draw(t, "prePut2") {
		pre = append(pre, c06Step{Op: "put", Alert: rapid.IntRange(0, 3).Draw(t, "preAlert2"), EndOff: 300, Group2: rapid.Bool().Draw(t, "preG2")})
	}
	if rapid.IntRange(0, 3).Draw(t, "preAdvance") > 0 {
		pre = append(pre, c06Step{Op: "advance", Dt: sc.StartDelay + rapid.IntRange(0, 2).Draw(t, "preOver")})
	}
	sc.Steps = append(pre, sc.Steps...)
	return sc
}

func TestC01StartSchedule(t *testing.T) {
	pbt.Run(t, pbt.Spec[c06Scenario]{
		Property: "C01", Name: "C01StartSchedule",
		Rule: "the scenarios of C06Schedule (one route, group_by [a]; fire / resolve / re-fire of up to four label sets; dispatcher goroutines parked at the hook points around group creation, the maintenance sweep and flush completion, released in a generated order) with the dispatcher started 2, 4 or 9 s ahead of the bubble's start (Dispatcher.Run(startTime)), a creator hook point always among the parking points, and a prefix that puts 1-2 long-lived alerts before the start instant and usually lets the instant pass while their workers are parked. Judged here: after draining and start delay + group_wait + group_interval + 2 s of virtual time every alert that is still firing has been listed by a notification (kind group-without-running-timer), it sits in exactly one group, and after all alerts ended no group remains (a group that was never run is never destroyed). Non-trivial: a worker parked inside groupAlert before the start instant was released after it.",
		Gen:  genC01Start,
		Exec: func(sc c06Scenario) pbt.Result {
			res := execC06(sc)
			kept := res.Violations[:0]
			for _, v := range res.Violations {
				switch v.Kind {
				case "group-without-running-timer", "alert-not-in-one-group", "group-not-removed", "group-gauge", "harness":
					kept = append(kept, v)
				}
			}
			res.Violations = kept
			res.NonTrivial = slices.Contains(res.Classes, "creator-parked-across-start")
			return res
		},
	})
}
