package checks

import (
	"testing"

	"pgregory.net/rapid"

	"verif/harness/pbt"
)

const c09IdemRule = "Same machinery as C09Converge (real Set/Expire-authored plus hand-built versions, two receiving instances, deliveries/blobs/full states/local edits, drain) with no GC, " +
	"followed by 1-6 re-merges of material the instance has already received: a byte-identical earlier blob, a new blob of already received versions (unique ids), its own MarshalBinary, " +
	"the peer's and the author's MarshalBinary after both received everything; family B lets virtual time pass between them. " +
	"Oracle tied to 're-merging anything already known changes nothing and triggers no further gossip': MarshalBinary (as a set of records, proto.Equal incl. expires_at) and Query are identical before and after " +
	"(compared directly, not via the model) and the broadcast function is called zero times; for every merge of the case: the broadcast function only ever receives exactly the received bytes; " +
	"a merge that changed the state (per reference LWW store) hands them over at least once unless cluster.OversizedMessage(b) (count per blob not constrained: the code re-broadcasts once per changed record). " +
	"Non-trivial: at least one re-merge contains a record the instance currently stores and at least one earlier merge changed the state."

func TestC09Idempotent(t *testing.T) {
	pbt.Run(t, pbt.Spec[c09ConvScenario]{
		Property: "C09", Name: "C09Idempotent", Rule: c09IdemRule,
		Gen:  func(t *rapid.T) c09ConvScenario { return c09GenConv(t, true) },
		Exec: func(sc c09ConvScenario) pbt.Result { return c09RunConv(sc, true) },
	})
}
