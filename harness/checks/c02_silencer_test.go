package checks

import (
	"bytes"
	"context"
	"fmt"
	"sort"
	"testing"
	"testing/synctest"
	"time"

	"github.com/prometheus/client_golang/prometheus"
	"github.com/prometheus/common/model"
	"google.golang.org/protobuf/types/known/timestamppb"
	"pgregory.net/rapid"

	"github.com/prometheus/alertmanager/eventrecorder"
	"github.com/prometheus/alertmanager/featurecontrol"
	"github.com/prometheus/alertmanager/marker"
	"github.com/prometheus/alertmanager/matcher/compat"
	"github.com/prometheus/alertmanager/silence"
	pb "github.com/prometheus/alertmanager/silence/silencepb"

	"verif/harness/gen"
	"verif/harness/pbt"
	"verif/harness/ref"
)

// C02 component machine: one Silences + Silencer under test (A, warm cache
// kept across the whole history) and a second Silences (B) that authors
// replicated versions of the same silences. B receives A's broadcasts
// immediately; B's broadcasts go to a pool and are merged into A late,
// duplicated and out of order.

type c02Op struct {
	Kind string `json:"kind"`          // new | edit | expire | deliver | gc | alertgc | reload | advance | mutes
	On   string `json:"on,omitempty"`  // A | B (new, edit, expire)
	Sil  int    `json:"sil,omitempty"` // index into the silences created so far (mod count)
	// new / edit
	Sets     [][]ref.Matcher `json:"sets,omitempty"`
	StartOff int             `json:"start_off,omitempty"` // seconds from now
	EndOff   int             `json:"end_off,omitempty"`
	Comment  string          `json:"comment,omitempty"`
	// edit: also move the start to now + StartOff
	MoveStart bool `json:"move_start,omitempty"`
	// edit: flip the operator of the FlipOp-th matcher (mod count), 0 = no flip
	FlipOp int `json:"flip_op,omitempty"`
	// deliver
	Msg int  `json:"msg,omitempty"` // index into the pool (mod size)
	All bool `json:"all,omitempty"` // deliver B's full state instead
	// advance
	Dt int `json:"dt,omitempty"`
}

type c02Scenario struct {
	Retention int     `json:"retention"` // seconds
	Ops       []c02Op `json:"ops"`
}

func genC02Sets(t *rapid.T) [][]ref.Matcher {
	n := rapid.IntRange(1, 2).Draw(t, "nsets")
	var sets [][]ref.Matcher
	for i := 0; i < n; i++ {
		// first matcher: an equality on a non-empty value (so the set does not match the empty label set)
		set := []ref.Matcher{{Op: "=", Name: rapid.SampledFrom(gen.UniNames).Draw(t, "n"), Value: rapid.SampledFrom(gen.UniValues).Draw(t, "v")}}
		if rapid.IntRange(0, 2).Draw(t, "second") == 0 {
			set = append(set, gen.UniMatcher().Draw(t, "m2"))
		}
		sets = append(sets, set)
	}
	return sets
}

func genC02(t *rapid.T) c02Scenario {
	sc := c02Scenario{Retention: rapid.SampledFrom([]int{60, 600, 7200}).Draw(t, "ret")}
	n := rapid.IntRange(4, 30).Draw(t, "nops")
	created := 0
	if rapid.IntRange(0, 4).Draw(t, "postponed") == 0 {
		// a pending window that is postponed in place on the peer, while the update reaches A only after the original
		// window is over there (and A's per-alert caches have seen it end); it must mute when the new window starts
		st := rapid.SampledFrom([]int{30, 120}).Draw(t, "ppStart")
		ln := rapid.SampledFrom([]int{20, 60}).Draw(t, "ppLen")
		later := st + ln + rapid.SampledFrom([]int{60, 200}).Draw(t, "ppLater")
		sc.Ops = append(sc.Ops,
			c02Op{Kind: "new", On: "A", Sets: genC02Sets(t), StartOff: st, EndOff: st + ln},
			c02Op{Kind: "edit", On: "B", Sil: 0, MoveStart: true, StartOff: later, EndOff: later + 60, Comment: "c1"},
			c02Op{Kind: "mutes"},
			c02Op{Kind: "advance", Dt: st + ln + 10},
			c02Op{Kind: "mutes"},
			c02Op{Kind: "deliver", Msg: 0, All: rapid.Bool().Draw(t, "ppAll")},
			c02Op{Kind: "mutes"},
			c02Op{Kind: "advance", Dt: later - (st + ln + 10) + 5},
			c02Op{Kind: "mutes"})
		created = 2 // the edit may replace
	}
	for i := 0; i < n; i++ {
		k := rapid.IntRange(0, 19).Draw(t, "op")
		if created == 0 {
			k = 0
		}
		on := rapid.SampledFrom([]string{"A", "A", "B"}).Draw(t, "on")
		switch {
		case k < 3:
			op := c02Op{Kind: "new", On: on, Sets: genC02Sets(t)}
			op.StartOff = rapid.SampledFrom([]int{0, 0, 0, 30, 120}).Draw(t, "start")
			op.EndOff = op.StartOff + rapid.SampledFrom([]int{20, 60, 300, 3600}).Draw(t, "len")
			sc.Ops = append(sc.Ops, op)
			created++
		case k < 6:
			op := c02Op{Kind: "edit", On: on, Sil: rapid.IntRange(0, created-1).Draw(t, "sil")}
			op.EndOff = rapid.SampledFrom([]int{20, 60, 300, 3600}).Draw(t, "end")
			op.Comment = rapid.SampledFrom([]string{"c1", "c2"}).Draw(t, "comment")
			if rapid.IntRange(0, 4).Draw(t, "chm") == 0 {
				op.Sets = genC02Sets(t) // changes matchers: replaces
				created++
			}
			// flip the operator of one matcher, names and patterns unchanged (the silence must be replaced, not edited)
			if op.Sets == nil && rapid.IntRange(0, 3).Draw(t, "flip") == 0 {
				op.FlipOp = rapid.IntRange(1, 4).Draw(t, "flipAt")
				created++
			}
			// move the start: a pending silence is edited in place (sooner or later), an active one is replaced
			if rapid.IntRange(0, 2).Draw(t, "chs") == 0 {
				op.MoveStart = true
				op.StartOff = rapid.SampledFrom([]int{0, 0, 5, 30, 120}).Draw(t, "estart")
				if op.EndOff <= op.StartOff {
					op.EndOff = op.StartOff + 60
				}
				created++ // may be replaced
			}
			sc.Ops = append(sc.Ops, op)
		case k < 8:
			sc.Ops = append(sc.Ops, c02Op{Kind: "expire", On: on, Sil: rapid.IntRange(0, created-1).Draw(t, "sil")})
		case k < 11:
			sc.Ops = append(sc.Ops, c02Op{Kind: "deliver", Msg: rapid.IntRange(0, 40).Draw(t, "msg"), All: rapid.IntRange(0, 4).Draw(t, "all") == 0})
		case k < 12:
			sc.Ops = append(sc.Ops, c02Op{Kind: "gc"})
		case k < 13:
			sc.Ops = append(sc.Ops, c02Op{Kind: "alertgc"})
		case k < 14:
			sc.Ops = append(sc.Ops, c02Op{Kind: "reload"})
		case k < 17 && rapid.IntRange(0, 3).Draw(t, "aborted") == 0:
			// a mute query on behalf of a request that was aborted (its context is already cancelled)
			sc.Ops = append(sc.Ops, c02Op{Kind: "mutes-aborted"})
		case k < 17:
			sc.Ops = append(sc.Ops, c02Op{Kind: "advance", Dt: rapid.SampledFrom([]int{1, 10, 25, 45, 70, 130, 400, 1000, 4000}).Draw(t, "dt")})
		default:
			sc.Ops = append(sc.Ops, c02Op{Kind: "mutes"})
		}
		if rapid.IntRange(0, 2).Draw(t, "thenMutes") == 0 {
			sc.Ops = append(sc.Ops, c02Op{Kind: "mutes"})
		}
	}
	sc.Ops = append(sc.Ops, c02Op{Kind: "mutes"})
	return sc
}

func c02ToPB(sets [][]ref.Matcher) []*pb.MatcherSet {
	var out []*pb.MatcherSet
	typ := map[string]pb.Matcher_Type{"=": pb.Matcher_EQUAL, "!=": pb.Matcher_NOT_EQUAL, "=~": pb.Matcher_REGEXP, "!~": pb.Matcher_NOT_REGEXP}
	for _, set := range sets {
		ms := &pb.MatcherSet{}
		for _, m := range set {
			v := m.Value
			if m.Op == "=~" || m.Op == "!~" {
				v = m.Pattern()
			}
			ms.Matchers = append(ms.Matchers, &pb.Matcher{Type: typ[m.Op], Name: m.Name, Pattern: v})
		}
		out = append(out, ms)
	}
	return out
}

// universe of queried label sets: all assignments of {absent, x, y, z} to a, b, c.
func c02Universe() []map[string]string {
	var out []map[string]string
	vals := append([]string{""}, gen.UniValues...)
	for _, a := range vals {
		for _, b := range vals {
			for _, c := range vals {
				ls := map[string]string{}
				if a != "" {
					ls["a"] = a
				}
				if b != "" {
					ls["b"] = b
				}
				if c != "" {
					ls["c"] = c
				}
				out = append(out, ls)
			}
		}
	}
	return out
}

func execC02(sc c02Scenario) (res pbt.Result) {
	// pattern text -> AST for the brute-force evaluation (reference matcher semantics)
	reByText := map[string]*ref.Re{}
	for _, op := range sc.Ops {
		for _, set := range op.Sets {
			for _, m := range set {
				if m.Re != nil {
					reByText[m.Pattern()] = m.Re
				}
			}
		}
	}
	universe := c02Universe()
	var changedMerge, gcOrReload, verdictChanged, revived bool
	synctest.Test(pbt.T(), func(*testing.T) {
		compat.InitFromFlags(nopLog, featurecontrol.NoopFlags{})
		ret := time.Duration(sc.Retention) * time.Second
		newSil := func(snap []byte) *silence.Silences {
			o := silence.Options{Retention: ret, Logger: nopLog, Metrics: prometheus.NewRegistry(), EventRecorder: eventrecorder.NopRecorder()}
			if snap != nil {
				o.SnapshotReader = bytes.NewReader(snap)
			}
			s, err := silence.New(o)
			if err != nil {
				res.Fail("harness", "silence.New: %v", err)
			}
			return s
		}
		A, B := newSil(nil), newSil(nil)
		var pool [][]byte
		B.SetBroadcast(func(b []byte) { pool = append(pool, append([]byte(nil), b...)) })
		wireA := func() {
			A.SetBroadcast(func(b []byte) {
				if err := B.Merge(append([]byte(nil), b...)); err != nil {
					res.Fail("harness", "B.Merge: %v", err)
				}
			})
		}
		wireA()
		silencer := silence.NewSilencer(A, nopLog, eventrecorder.NopRecorder())
		persistent := marker.NewAlertMarker()
		var ids []string // creation order (on either side)
		last := map[string]bool{}
		ctx := context.Background()

		for i, op := range sc.Ops {
			time.Sleep(time.Millisecond) // op i at whole seconds + (i+1) ms
			now := time.Now()
			S := A
			if op.On == "B" {
				S = B
			}
			switch op.Kind {
			case "advance":
				time.Sleep(time.Duration(op.Dt)*time.Second - time.Millisecond)
			case "new":
				s := &pb.Silence{MatcherSets: c02ToPB(op.Sets), StartsAt: timestamppb.New(now.Add(time.Duration(op.StartOff) * time.Second)),
					EndsAt: timestamppb.New(now.Add(time.Duration(op.EndOff) * time.Second)), CreatedBy: "c02", Comment: "c0"}
				if err := S.Set(ctx, s); err != nil {
					res.Fail("harness", "Set(new): %v", err)
				} else {
					ids = append(ids, s.Id)
				}
			case "edit":
				if len(ids) == 0 {
					continue
				}
				id := ids[op.Sil%len(ids)]
				cur, err := S.QueryOne(ctx, silence.QIDs(id))
				if err != nil {
					continue // unknown on this side (not replicated yet, or collected)
				}
				n := &pb.Silence{Id: id, MatcherSets: cur.MatcherSets, StartsAt: cur.StartsAt, CreatedBy: "c02", Comment: op.Comment,
					EndsAt: timestamppb.New(now.Add(time.Duration(op.EndOff) * time.Second))}
				if op.Sets != nil {
					n.MatcherSets = c02ToPB(op.Sets)
				}
				if op.FlipOp > 0 {
					var ms []*pb.Matcher
					sets := make([]*pb.MatcherSet, len(cur.MatcherSets))
					for si, set := range cur.MatcherSets {
						cp := &pb.MatcherSet{}
						for _, m := range set.Matchers {
							c := &pb.Matcher{Type: m.Type, Name: m.Name, Pattern: m.Pattern}
							cp.Matchers = append(cp.Matchers, c)
							ms = append(ms, c)
						}
						sets[si] = cp
					}
					if len(ms) > 0 {
						m := ms[(op.FlipOp-1)%len(ms)]
						m.Type = map[pb.Matcher_Type]pb.Matcher_Type{pb.Matcher_EQUAL: pb.Matcher_NOT_EQUAL, pb.Matcher_NOT_EQUAL: pb.Matcher_EQUAL,
							pb.Matcher_REGEXP: pb.Matcher_NOT_REGEXP, pb.Matcher_NOT_REGEXP: pb.Matcher_REGEXP}[m.Type]
						n.MatcherSets = sets
					}
				}
				if op.MoveStart {
					n.StartsAt = timestamppb.New(now.Add(time.Duration(op.StartOff) * time.Second))
				}
				if n.EndsAt.AsTime().Before(n.StartsAt.AsTime()) {
					continue
				}
				if err := S.Set(ctx, n); err == nil && n.Id != id {
					ids = append(ids, n.Id)
				}
			case "expire":
				if len(ids) == 0 {
					continue
				}
				_ = S.Expire(ctx, ids[op.Sil%len(ids)])
			case "deliver":
				var b []byte
				if op.All {
					b, _ = B.MarshalBinary()
				} else if len(pool) > 0 {
					b = pool[op.Msg%len(pool)]
				}
				if len(b) == 0 {
					continue
				}
				before, _ := A.MarshalBinary()
				if err := A.Merge(append([]byte(nil), b...)); err != nil {
					res.Fail("harness", "A.Merge: %v", err)
				}
				after, _ := A.MarshalBinary()
				if !bytes.Equal(before, after) {
					changedMerge = true
				}
			case "gc":
				if _, err := A.GC(); err != nil {
					res.Add(pbt.V("gc-error", "op %d: GC: %v", i, err))
				}
				gcOrReload = true
			case "alertgc":
				// the provider tells the silencer which alert fingerprints it collected
				var fps model.Fingerprints
				for j, ls := range universe {
					if (j+i)%3 == 0 {
						fps = append(fps, toLabelSet(ls).Fingerprint())
					}
				}
				silencer.PostGC(fps)
			case "reload":
				var buf bytes.Buffer
				if _, err := A.Snapshot(&buf); err != nil {
					res.Fail("harness", "Snapshot: %v", err)
					continue
				}
				A = newSil(buf.Bytes())
				wireA()
				silencer = silence.NewSilencer(A, nopLog, eventrecorder.NopRecorder())
				gcOrReload = true
			case "mutes-aborted":
				// the verdict of an aborted query is nobody's business, but it must not leave anything behind that
				// falsifies later verdicts
				cctx, ccancel := context.WithCancel(ctx)
				ccancel()
				for j, ls := range universe {
					if (j+i)%2 == 0 {
						silencer.Mutes(marker.WithContext(cctx, marker.NewAlertMarker()), toLabelSet(ls))
					}
				}
			case "mutes":
				all, _, err := A.Query(ctx)
				if err != nil {
					res.Add(pbt.V("query-error", "op %d: Query: %v", i, err))
					continue
				}
				for _, ls := range universe {
					var want []string
					for _, s := range all {
						if now.Before(s.StartsAt.AsTime()) || now.After(s.EndsAt.AsTime()) {
							continue
						}
						if c02Matches(s, ls, reByText, &res) {
							want = append(want, s.Id)
						}
					}
					sort.Strings(want)
					lset := toLabelSet(ls)
					for pass := 0; pass < 2; pass++ { // cold/warm cache must agree
						// first with a fresh marker (an API status query), then with the long-lived one (an aggregation
						// group's marker, which remembers what the previous evaluation recorded)
						m := marker.NewAlertMarker()
						if pass == 1 {
							m = persistent
						}
						got := silencer.Mutes(marker.WithContext(ctx, m), lset)
						by := append([]string(nil), m.Status(lset.Fingerprint()).SilencedBy...)
						sort.Strings(by)
						if got != (len(want) > 0) || fmt.Sprint(by) != fmt.Sprint(want) {
							v := pbt.V("mutes-differs-from-stored-silences", "op %d at %s pass %d: Mutes(%v)=%v by %v, direct evaluation of the %d stored silences says %v", i, now.Format("15:04:05.000"), pass, ls, got, by, len(all), want)
							// facts for the known-finding signature: is every missing id a silence that a merge changed in place?
							v = v.With("got", got).With("want_muted", len(want) > 0)
							res.Add(v)
						}
					}
					key := ref.LabelKey(ls)
					if prev, ok := last[key]; ok && prev != (len(want) > 0) {
						verdictChanged = true
						if len(want) > 0 && changedMerge {
							revived = true
						}
					}
					last[key] = len(want) > 0
				}
			}
		}
	})
	res.NonTrivial = (changedMerge || gcOrReload) && verdictChanged
	if changedMerge {
		res.Class("merge-changed-state")
	}
	if gcOrReload {
		res.Class("gc-or-reload")
	}
	if verdictChanged {
		res.Class("verdict-changed")
	}
	if revived {
		res.Class("muted-again-after-merge")
	}
	return res
}

func c02Matches(s *pb.Silence, ls map[string]string, reByText map[string]*ref.Re, res *pbt.Result) bool {
	for _, set := range s.MatcherSets {
		all := true
		for _, m := range set.Matchers {
			rm := ref.Matcher{Name: m.Name}
			switch m.Type {
			case pb.Matcher_EQUAL:
				rm.Op, rm.Value = "=", m.Pattern
			case pb.Matcher_NOT_EQUAL:
				rm.Op, rm.Value = "!=", m.Pattern
			case pb.Matcher_REGEXP, pb.Matcher_NOT_REGEXP:
				rm.Op = "=~"
				if m.Type == pb.Matcher_NOT_REGEXP {
					rm.Op = "!~"
				}
				rm.Re = reByText[m.Pattern]
				if rm.Re == nil {
					res.Fail("harness", "unknown pattern %q", m.Pattern)
					return false
				}
			}
			if !rm.Holds(ls[m.Name]) {
				all = false
				break
			}
		}
		if all {
			return true
		}
	}
	return false
}

func TestC02Silencer(t *testing.T) {
	pbt.Run(t, pbt.Spec[c02Scenario]{
		Property: "C02", Name: "C02Silencer",
		Rule: "histories of 4-30 ops (one in five after a prefix in which a pending window is postponed in place on the peer and that update reaches this instance only after the original window is over) over one Silences+Silencer (warm cache kept) and a peer that authors replicated versions: new (pending/active, 1-2 OR-ed matcher sets, all operators incl. regex ASTs), edit (in place or replacing), expire, deliver (late/duplicated/out-of-order single updates or the peer's full state), GC, alert-GC (PostGC), snapshot+reload, advance 1s-67min, mutes. Oracle after every mutes, for all 64 label sets of the universe, queried twice: verdict and SilencedBy ids equal a direct evaluation of Query() (all stored silences) with reference matcher semantics and start <= now <= end. Non-trivial: a merge changed the store or a GC/reload happened, and some verdict changed between queries.",
		Gen:  genC02, Exec: execC02,
	})
}
