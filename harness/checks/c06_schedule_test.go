package checks

import (
	"context"
	"fmt"
	"log/slog"
	"sort"
	"sync"
	"testing"
	"testing/synctest"
	"time"

	"github.com/prometheus/client_golang/prometheus"
	"github.com/prometheus/common/model"
	"pgregory.net/rapid"

	"github.com/prometheus/alertmanager/alert"
	"github.com/prometheus/alertmanager/config"
	"github.com/prometheus/alertmanager/dispatch"
	"github.com/prometheus/alertmanager/eventrecorder"
	"github.com/prometheus/alertmanager/featurecontrol"
	"github.com/prometheus/alertmanager/marker"
	"github.com/prometheus/alertmanager/notify"
	"github.com/prometheus/alertmanager/provider/mem"
	"github.com/prometheus/alertmanager/timeinterval"
	"github.com/prometheus/alertmanager/verifhook"

	"verif/harness/pbt"
)

// C06, engine E4: controlled interleavings of the dispatcher's goroutines at the
// verif hook points inside groupAlert (after the map load, after creating a new
// group), doMaintenance (around the deletion of a destroyed group) and flush
// (between notify and the deletion of resolved alerts).

type c06Step struct {
	Op     string `json:"op"`               // put | advance | release
	Alert  int    `json:"alert,omitempty"`  // put: alert number (label i=<n>), all share the group label a=x unless Group2
	Group2 bool   `json:"group2,omitempty"` // put: the alert belongs to a second group (a=y)
	EndOff int    `json:"end_off,omitempty"`
	Dt     int    `json:"dt,omitempty"`     // advance: seconds
	Choice int    `json:"choice,omitempty"` // release: index into the parked goroutines (mod count)
}

type c06Scenario struct {
	GroupWait     int `json:"group_wait"`
	GroupInterval int `json:"group_interval"`
	Maint         int `json:"maint"` // dispatcher maintenance interval (seconds)
	Limit         int `json:"limit"` // aggregation group limit (0 = none); with two group keys a limit of 3 must never bind (the count includes destroyed groups awaiting the sweep, at most one per key)
	// Muted: the route carries a mute time interval that always matches, the pipeline starts with the real
	// TimeActiveStage/TimeMuteStage: every flush is muted and must leave the group marked as muted (C15Schedule)
	Muted bool `json:"muted,omitempty"`
	// StartDelay > 0: the dispatcher is started with a start time that many seconds ahead (as cmd/alertmanager does
	// while the cluster settles): groups are created but only run from the start instant on (C01StartSchedule)
	StartDelay int `json:"start_delay,omitempty"`
	// PreStart: puts made before the dispatcher is started; it finds them in the provider's snapshot (as the new
	// dispatcher of a configuration reload does) while later updates reach it over the subscription (C14Restart)
	PreStart []c06Step `json:"pre_start,omitempty"`
	Park     []string  `json:"park"` // hook points at which goroutines park
	Steps    []c06Step `json:"steps"`
}

var c06Points = []string{"group.loaded", "group.created", "maint.destroyed", "maint.deleted", "flush.notified", "log:flushing", "log:ag-other"}

func genC06(t *rapid.T) c06Scenario {
	sc := c06Scenario{
		GroupWait:     rapid.SampledFrom([]int{0, 5}).Draw(t, "gw"),
		GroupInterval: rapid.SampledFrom([]int{10, 30}).Draw(t, "gi"),
		Maint:         rapid.SampledFrom([]int{7, 15, 60}).Draw(t, "maint"),
		Limit:         rapid.SampledFrom([]int{0, 3, 3}).Draw(t, "limit"), // the count includes destroyed groups not yet swept: one per key, so 3 never binds with two keys
	}
	for _, p := range c06Points {
		if rapid.IntRange(0, 3).Draw(t, "park") > 0 {
			sc.Park = append(sc.Park, p)
		}
	}
	n := rapid.IntRange(4, 24).Draw(t, "n")
	for i := 0; i < n; i++ {
		switch rapid.IntRange(0, 9).Draw(t, "op") {
		case 0, 1, 2, 3:
			sc.Steps = append(sc.Steps, c06Step{Op: "put", Alert: rapid.IntRange(0, 3).Draw(t, "alert"),
				Group2: rapid.IntRange(0, 5).Draw(t, "g2") == 0,
				EndOff: rapid.SampledFrom([]int{-1, 4, 12, 40, 300}).Draw(t, "end")})
		case 4, 5:
			sc.Steps = append(sc.Steps, c06Step{Op: "advance", Dt: rapid.SampledFrom([]int{1, 3, 5, 8, 10, 16, 31}).Draw(t, "dt")})
		default:
			sc.Steps = append(sc.Steps, c06Step{Op: "release", Choice: rapid.IntRange(0, 5).Draw(t, "choice")})
		}
	}
	return sc
}

// c06LogGate is the dispatcher's logger: a record written through an aggregation group's logger (the one carrying
// the "aggrGroup" attribute) is a schedule point of its own, "log:flushing" for the line that opens a flush and
// "log:ag-other" for any other line (the unchanged tree has none on the paths exercised here; a line added inside a
// check-then-act window becomes a place where the harness can hold the goroutine).
type c06LogGate struct {
	ag   bool
	hook func(name string)
}

func (h c06LogGate) Enabled(context.Context, slog.Level) bool { return true }
func (h c06LogGate) WithGroup(string) slog.Handler            { return h }
func (h c06LogGate) WithAttrs(as []slog.Attr) slog.Handler {
	for _, a := range as {
		if a.Key == "aggrGroup" {
			h.ag = true
		}
	}
	return h
}
func (h c06LogGate) Handle(_ context.Context, r slog.Record) error {
	if h.ag && h.hook != nil {
		if r.Message == "flushing" {
			h.hook("log:flushing")
		} else {
			h.hook("log:ag-other")
		}
	}
	return nil
}

type c06Limits int

func (l c06Limits) MaxNumberOfAggregationGroups() int { return int(l) }

type c06Parked struct {
	seq   int
	point string
	gate  chan struct{}
	at    time.Time
}

type c06Delivery struct {
	at  time.Time
	fps map[model.Fingerprint]bool
	upd map[model.Fingerprint]time.Time // update time of the listed (firing) version
}

func execC06(sc c06Scenario) (res pbt.Result) {
	overlap, recreated, acrossStart, snapshotParked, flushEndParked := false, false, false, false, false
	synctest.Test(pbt.T(), func(*testing.T) {
		ctx, cancel := context.WithCancel(context.Background())
		defer cancel()
		reg := prometheus.NewRegistry()
		alerts, err := mem.NewAlerts(ctx, time.Hour, 0, nil, nopLog, eventrecorder.NopRecorder(), reg, featurecontrol.NoopFlags{})
		if err != nil {
			res.Fail("harness", "%v", err)
			return
		}
		defer alerts.Close()
		gw, gi, ri := model.Duration(time.Duration(sc.GroupWait)*time.Second), model.Duration(time.Duration(sc.GroupInterval)*time.Second), model.Duration(time.Hour)
		cr := &config.Route{Receiver: "r", GroupByStr: []string{"a"}, GroupBy: []model.LabelName{"a"}, GroupWait: &gw, GroupInterval: &gi, RepeatInterval: &ri}
		var dmtx sync.Mutex
		var deliveries []c06Delivery
		stage := notify.StageFunc(func(ctx context.Context, _ *slog.Logger, as ...*alert.Alert) (context.Context, []*alert.Alert, error) {
			d := c06Delivery{at: time.Now(), fps: map[model.Fingerprint]bool{}, upd: map[model.Fingerprint]time.Time{}}
			for _, a := range as {
				if !a.Resolved() {
					d.fps[a.Fingerprint()] = true
					d.upd[a.Fingerprint()] = a.UpdatedAt
				}
			}
			dmtx.Lock()
			deliveries = append(deliveries, d)
			dmtx.Unlock()
			return ctx, as, nil
		})
		dm := dispatch.NewDispatcherMetrics(false, reg, featurecontrol.NoopFlags{})
		gm := marker.NewGroupMarker()
		var hookFn func(name string, arg any) // set below, before the dispatcher runs
		var pipeline notify.Stage = stage
		if sc.Muted {
			cr.MuteTimeIntervals = []string{"always"}
			intervener := timeinterval.NewIntervener(map[string][]timeinterval.TimeInterval{"always": {{}}})
			nm := notify.NewMetrics(prometheus.NewRegistry(), featurecontrol.NoopFlags{})
			pipeline = notify.MultiStage{notify.NewTimeActiveStage(intervener, gm, nm), notify.NewTimeMuteStage(intervener, gm, nm), stage}
		}
		disp := dispatch.NewDispatcher(alerts, dispatch.NewRoute(cr, nil), pipeline, gm, func(d time.Duration) time.Duration { return d },
			time.Duration(sc.Maint)*time.Second, c06Limits(sc.Limit), slog.New(c06LogGate{hook: func(n string) {
				if hookFn != nil {
					hookFn(n, nil)
				}
			}}), eventrecorder.NopRecorder(), dm, nil)

		parkAt := map[string]bool{}
		for _, p := range sc.Park {
			parkAt[p] = true
		}
		var mtx sync.Mutex
		var dispStart time.Time // set before the dispatcher runs
		var parked []*c06Parked
		seq := 0
		draining := false
		created := map[string]time.Time{} // group key -> creation instant of its latest incarnation
		hookFn = func(name string, arg any) {
			if name == "group.created" {
				if g, ok := arg.(interface{ GroupKey() string }); ok {
					mtx.Lock()
					created[g.GroupKey()] = time.Now()
					mtx.Unlock()
				}
			}
			mtx.Lock()
			if !parkAt[name] || draining {
				mtx.Unlock()
				return
			}
			if al, ok := arg.(*alert.Alert); ok && name == "group.loaded" && !dispStart.IsZero() && al.UpdatedAt.Before(dispStart) {
				snapshotParked = true
			}
			p := &c06Parked{seq: seq, point: name, gate: make(chan struct{}), at: time.Now()}
			seq++
			parked = append(parked, p)
			mtx.Unlock()
			<-p.gate
		}
		verifhook.Set(hookFn)
		defer verifhook.Set(nil)
		lastPut := map[model.Fingerprint]time.Time{}
		put := func(st c06Step, i int) {
			now := time.Now()
			a := "x"
			if st.Group2 {
				a = "y"
			}
			al := &alert.Alert{Alert: model.Alert{Labels: model.LabelSet{"a": model.LabelValue(a), "i": model.LabelValue(fmt.Sprint(st.Alert))},
				StartsAt: now, EndsAt: now.Add(time.Duration(st.EndOff) * time.Second)}, UpdatedAt: now}
			if st.EndOff < 0 {
				al.StartsAt = al.EndsAt.Add(-time.Second)
			}
			if err := alerts.Put(ctx, al); err != nil {
				res.Fail("harness", "Put: %v", err)
			}
			lastPut[al.Fingerprint()] = now
		}
		for i, st := range sc.PreStart {
			time.Sleep(time.Millisecond)
			put(st, i)
		}
		if len(sc.PreStart) > 0 {
			time.Sleep(time.Millisecond)
		}
		mtx.Lock()
		dispStart = time.Now()
		mtx.Unlock()
		startAt := dispStart.Add(time.Duration(sc.StartDelay) * time.Second)
		go disp.Run(startAt)
		if len(sc.PreStart) == 0 {
			disp.WaitForLoading()
		}
		// (with a snapshot to route, the goroutine routing it may be parked at a hook point: Run has not finished
		// loading until the scenario releases it)
		synctest.Wait()

		release := func(choice int) bool {
			mtx.Lock()
			if len(parked) == 0 {
				mtx.Unlock()
				return false
			}
			sort.Slice(parked, func(i, j int) bool { return parked[i].seq < parked[j].seq })
			creators := 0
			for _, p := range parked {
				if p.point == "group.loaded" || p.point == "group.created" {
					creators++
				}
			}
			if creators >= 2 {
				overlap = true
			}
			idx := choice % len(parked)
			p := parked[idx]
			parked = append(parked[:idx], parked[idx+1:]...)
			mtx.Unlock()
			if p.point == "flush.notified" || p.point == "log:ag-other" {
				flushEndParked = true
			}
			if sc.StartDelay > 0 && (p.point == "group.loaded" || p.point == "group.created") && p.at.Before(startAt) && !time.Now().Before(startAt) {
				acrossStart = true
			}
			close(p.gate)
			synctest.Wait()
			return true
		}
		for i, st := range sc.Steps {
			time.Sleep(time.Millisecond)
			switch st.Op {
			case "put":
				put(st, i)
				synctest.Wait()
			case "advance":
				time.Sleep(time.Duration(st.Dt)*time.Second - time.Millisecond)
				synctest.Wait()
			case "release":
				release(st.Choice)
			}
		}
		// drain: nothing parks any more, everything parked proceeds
		mtx.Lock()
		draining = true
		mtx.Unlock()
		for release(0) {
		}
		synctest.Wait()
		// muted mode: a live group whose first flush is due has been muted at its last flush and must say so
		checkMuted := func(when string) {
			if !sc.Muted {
				return
			}
			t := time.Now()
			gs, _, _ := disp.Groups(context.Background(), func(*dispatch.Route) bool { return true }, func(*alert.Alert, time.Time) bool { return true })
			for _, g := range gs {
				firing := false
				for _, a := range g.Alerts {
					if a.EndsAt.After(t) {
						firing = true
					}
				}
				mtx.Lock()
				c, known := created[g.GroupKey]
				mtx.Unlock()
				if !firing || !known || c.Add(time.Duration(sc.GroupWait)*time.Second+time.Millisecond).After(t) {
					continue
				}
				if by, ok := gm.Muted(g.RouteID, g.GroupKey); !ok || len(by) == 0 {
					res.Add(pbt.V("marker-not-muted", "%s (%s): group %s (created %s, group_wait %ds) holds firing alerts, every flush of its route is muted by the interval \"always\", but the group marker reports it as not muted (%v)", when, t.Format("15:04:05.000"), g.GroupKey, c.Format("15:04:05.000"), sc.GroupWait, by))
				}
			}
		}
		checkMuted("right after everything was released")
		// let every group flush and the maintenance sweep run
		settle := time.Duration(sc.GroupWait+sc.GroupInterval+2+sc.StartDelay) * time.Second
		drainAt := time.Now()
		time.Sleep(settle)
		synctest.Wait()
		now := time.Now()
		checkMuted("after settling")

		groups, _, err := disp.Groups(context.Background(), func(*dispatch.Route) bool { return true }, func(*alert.Alert, time.Time) bool { return true })
		if err != nil {
			res.Fail("harness", "Groups: %v", err)
		}
		seen := map[string]bool{}
		where := map[model.Fingerprint][]string{}
		for _, g := range groups {
			k := g.Labels.String()
			if seen[k] {
				res.Add(pbt.V("split-group", "two live aggregation groups with the same route and group labels %s", k))
			}
			seen[k] = true
			for _, a := range g.Alerts {
				where[a.Fingerprint()] = append(where[a.Fingerprint()], k)
				if string(a.Labels["a"]) != string(g.Labels["a"]) {
					res.Add(pbt.V("foreign-alert", "group %s holds alert %v", k, a.Labels))
				}
			}
		}
		if len(groups) > 1 {
			recreated = true
		}
		it := alerts.GetPending()
		for pa := range it.Next() {
			a := pa.Data
			if !a.EndsAt.After(now) {
				continue
			}
			fp := a.Fingerprint()
			if len(where[fp]) != 1 {
				res.Add(pbt.V("alert-not-in-one-group", "firing alert %v (end %s) is held by %d aggregation groups %v at %s, expected exactly one", a.Labels, a.EndsAt.Format("15:04:05.000"), len(where[fp]), where[fp], now.Format("15:04:05.000")))
				continue
			}
			// it was firing during the whole settle time: it must have been delivered after its last submission
			if a.EndsAt.After(now) && !lastPut[fp].After(drainAt) {
				delivered := false
				dmtx.Lock()
				for _, d := range deliveries {
					if d.fps[fp] && !d.at.Before(lastPut[fp]) {
						delivered = true
					}
				}
				// or before, if it has been firing in one unchanged group all along
				for _, d := range deliveries {
					if d.fps[fp] {
						delivered = true
					}
				}
				dmtx.Unlock()
				if !delivered {
					res.Add(pbt.V("group-without-running-timer", "firing alert %v sits in group %v but no notification listing it was made within group_wait+group_interval+maintenance after everything was released", a.Labels, where[fp]))
				}
			}
		}
		it.Close()
		// phase 2: once every alert has ended, been flushed and swept, no group and no count may remain
		time.Sleep(time.Duration(300+sc.GroupInterval+2*sc.Maint+2) * time.Second)
		synctest.Wait()
		groups, _, _ = disp.Groups(context.Background(), func(*dispatch.Route) bool { return true }, func(*alert.Alert, time.Time) bool { return true })
		if len(groups) != 0 {
			res.Add(pbt.V("group-not-removed", "%d aggregation groups remain although every alert ended more than group_interval + 2 maintenance intervals ago", len(groups)))
		}
		if mfs, err := reg.Gather(); err == nil {
			for _, mf := range mfs {
				if mf.GetName() == "alertmanager_dispatcher_aggregation_groups" {
					if g := mf.GetMetric()[0].GetGauge().GetValue(); g != 0 {
						res.Add(pbt.V("group-gauge", "alertmanager_dispatcher_aggregation_groups = %v although no group is left", g))
					}
				}
			}
		}
		// a notification made after everything had settled must not list as firing an alert whose end (per the
		// provider, which holds the last submitted version) lies more than one group_interval back: only a group
		// that no longer receives the alert's updates (an orphan outside the map) can do that
		dmtx.Lock()
		for _, d := range deliveries {
			if !d.at.After(now) {
				continue
			}
			for fp := range d.fps {
				if a, err := alerts.Get(fp); err == nil && a.EndsAt.Add(time.Duration(sc.GroupInterval+1)*time.Second).Before(d.at) {
					// facts: the listed version is an older submission (not a corrupted one), and the group that
					// holds it is a regular member of the dispatcher's map (listed by Groups() after settling)
					res.Add(pbt.V("stale-firing-notification", "a notification at %s lists %v as firing although the last submitted version ended at %s (more than group_interval earlier) and every goroutine had been released by %s", d.at.Format("15:04:05.000"), a.Labels, a.EndsAt.Format("15:04:05.000"), drainAt.Format("15:04:05.000")).
						With("older_version_listed", d.upd[fp].Before(a.UpdatedAt)).With("holding_group_listed", len(where[fp]) > 0).
						With("listed_version_from_snapshot", d.upd[fp].Before(dispStart)))
				}
			}
		}
		dmtx.Unlock()
		disp.Stop()
		synctest.Wait()
	})
	res.NonTrivial = overlap
	if overlap {
		res.Class("two-creators-overlapped")
	}
	if recreated {
		res.Class("several-groups")
	}
	if acrossStart {
		res.Class("creator-parked-across-start")
	}
	if snapshotParked {
		res.Class("snapshot-version-parked")
	}
	if flushEndParked {
		res.Class("parked-at-flush-end")
	}
	for _, p := range sc.Park {
		res.Class("park:" + p)
	}
	return res
}

func TestC06Schedule(t *testing.T) {
	pbt.Run(t, pbt.Spec[c06Scenario]{
		Property: "C06", Name: "C06Schedule",
		Rule: "real provider + dispatcher (one route, group_by [a]) in a bubble; alerts of one (or a second) group are put without waiting, resolve and re-fire; the dispatcher's goroutines park at the verif hook points group.loaded / group.created / maint.destroyed / maint.deleted / flush.notified (a generated subset) and a generated, shrinkable list of release choices and time advances decides the interleaving of concurrent group creators, the maintenance sweep and flush completion. After draining and one group_wait+group_interval+maintenance of virtual time: every firing alert of the provider is held by exactly one group with its group label, no two live groups share labels, and it was notified; after all alerts ended and were swept no group remains and the group gauge is 0. Non-trivial: at some release point two goroutines were inside groupAlert for creation at once.",
		Gen:  genC06,
		Exec: func(sc c06Scenario) pbt.Result {
			res := execC06(sc)
			kept := res.Violations[:0]
			for _, v := range res.Violations {
				if v.Kind != "stale-firing-notification" { // judged by C14Schedule / C04Schedule
					kept = append(kept, v)
				}
			}
			res.Violations = kept
			return res
		},
	})
}
