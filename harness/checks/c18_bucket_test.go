package checks

// C18 part 1: the per-alert-name limit (limit.Bucket / store.Alerts /
// provider mem.Alerts, and the same through POST /api/v2/alerts).
//
// History as data: a generated list of upsert / advance / GC operations is
// interpreted inside a synctest bubble against the real component; the oracle
// (ref.C18Admitted, DESIGN A.8) records the decisions the system announced and
// judges them against the property statement after every step.

import (
	"bytes"
	"context"
	"encoding/json"
	"errors"
	"fmt"
	"net/http"
	"net/http/httptest"
	"sort"
	"testing"
	"testing/synctest"
	"time"

	"github.com/prometheus/client_golang/prometheus"
	"github.com/prometheus/common/model"
	"pgregory.net/rapid"

	apiv2 "github.com/prometheus/alertmanager/api/v2"
	"github.com/prometheus/alertmanager/config"
	"github.com/prometheus/alertmanager/eventrecorder"
	"github.com/prometheus/alertmanager/featurecontrol"
	"github.com/prometheus/alertmanager/limit"
	"github.com/prometheus/alertmanager/matcher/compat"
	"github.com/prometheus/alertmanager/provider/mem"
	"github.com/prometheus/alertmanager/store"
	"github.com/prometheus/alertmanager/types"

	"verif/harness/pbt"
	"verif/harness/ref"
)

type c18Op struct {
	Kind   string `json:"kind"`              // upsert | advance | gc
	Name   int    `json:"name,omitempty"`    // alert name index (0|1)
	ID     int    `json:"id,omitempty"`      // distinguishing label value
	EndSec int    `json:"end_sec,omitempty"` // end relative to the instant of the op; <0 past; 0 = no end given (api level only)
	DtSec  int    `json:"dt_sec,omitempty"`  // advance
	// burst (provider, api): Count new alerts of one name (ids 1000+100*step+j, end in EndSec) in ONE Put / POST
	Count int `json:"count,omitempty"`
	// burst: the last member of the submission is a re-send of this id of the small universe (-1: none); if that
	// alert is admitted and unexpired the re-send must be accepted whatever happened to the members before it
	Resend int `json:"resend,omitempty"`
}

type c18BucketScenario struct {
	Level          string  `json:"level"` // bucket | store | provider | api
	N              int     `json:"n"`
	GCSec          int     `json:"gc_sec"`           // provider GC ticker period (provider, api)
	NamesInMetrics bool    `json:"names_in_metrics"` // feature flag alert-names-in-metrics (provider, api)
	Ops            []c18Op `json:"ops"`
}

var (
	c18Names    = []string{"HighLoad", "DiskFull"}
	c18EndsFut  = []int{30, 60, 120, 300, 600, 900}
	c18EndsPast = []int{-1, -20, -90}
	c18Advance  = []int{1, 10, 45, 90, 180, 360, 720}
)

func c18GenBucket(level []string) func(t *rapid.T) c18BucketScenario {
	return func(t *rapid.T) c18BucketScenario {
		sc := c18BucketScenario{
			Level: rapid.SampledFrom(level).Draw(t, "level"),
			N:     rapid.IntRange(1, 4).Draw(t, "n"),
			GCSec: rapid.SampledFrom([]int{30, 120, 300, 1800}).Draw(t, "gc"),
		}
		if sc.Level == "provider" || sc.Level == "api" {
			sc.NamesInMetrics = rapid.Bool().Draw(t, "namesInMetrics")
		}
		maxOps := 30
		if pbt.Thorough() {
			maxOps = 60
		}
		n := rapid.IntRange(4, maxOps).Draw(t, "nops")
		// a small id universe per name so that re-sends and full buckets are frequent
		ids := sc.N + rapid.IntRange(1, 3).Draw(t, "spare")
		// most histories concentrate on one name; the other keeps the per-name separation honest
		mainName := rapid.IntRange(0, 1).Draw(t, "mainName")
		for i := 0; i < n; i++ {
			switch k := rapid.IntRange(0, 9).Draw(t, "kind"); {
			case k <= 5:
				op := c18Op{Kind: "upsert", Name: mainName, ID: rapid.IntRange(0, ids-1).Draw(t, "id")}
				if rapid.IntRange(0, 5).Draw(t, "other") == 0 {
					op.Name = 1 - mainName
				}
				switch e := rapid.IntRange(0, 9).Draw(t, "endKind"); {
				case e <= 7:
					op.EndSec = rapid.SampledFrom(c18EndsFut).Draw(t, "end")
				case e == 8 && sc.Level == "api":
					op.EndSec = 0
				default:
					op.EndSec = rapid.SampledFrom(c18EndsPast).Draw(t, "endPast")
				}
				// store level: now and then the submission is a late copy of an earlier version (its update time lies
				// before the stored one's): the store ignores it, and so must the limit accounting
				if sc.Level == "store" && rapid.IntRange(0, 5).Draw(t, "late") == 0 {
					op.Kind = "late-copy"
				}
				sc.Ops = append(sc.Ops, op)
			case k <= 7:
				if (sc.Level == "provider" || sc.Level == "api") && rapid.IntRange(0, 3).Draw(t, "burst") == 0 {
					// several new alerts of one name in one submission: with a bucket that is full or nearly full
					// more than one of them is refused by the same call
					b := c18Op{Kind: "burst", Name: mainName, Count: rapid.IntRange(2, 5).Draw(t, "burstCount"), EndSec: rapid.SampledFrom(c18EndsFut).Draw(t, "burstEnd"), Resend: -1}
					if rapid.Bool().Draw(t, "burstResend") {
						b.Resend = rapid.IntRange(0, ids-1).Draw(t, "burstResendID")
					}
					sc.Ops = append(sc.Ops, b)
					continue
				}
				sc.Ops = append(sc.Ops, c18Op{Kind: "advance", DtSec: rapid.SampledFrom(c18Advance).Draw(t, "dt")})
			default:
				sc.Ops = append(sc.Ops, c18Op{Kind: "gc"})
			}
		}
		return sc
	}
}

// c18Listed is one alert as the system lists it.
type c18Listed struct {
	Name string
	End  time.Time
}

// c18Outcome of one upsert as announced/observable.
type c18Outcome struct {
	Refused bool      // the system announced a refusal (return value, error, counter)
	Stored  bool      // the submission is observably held by the system
	Known   bool      // Stored is known (api level: not for already expired submissions)
	End     time.Time // the end the system holds after an accepted submission
	Err     string    // harness/observation problem
	Silent  string    // non-empty: description of an unannounced drop or a contradictory announcement
}

// c18System is the component under test at one level.
type c18System interface {
	upsert(name string, id int, endSec int, now time.Time) c18Outcome
	// gc runs the garbage collection and returns the instant it ran at; the
	// bucket level also reports the names it judged stale.
	gc() (staleNames []string, at time.Time)
	// list returns what the system lists (fingerprint -> alert), ok=false if the level has no listing.
	list() (map[string]c18Listed, bool, error)
	close()
}

func c18Labels(name string, id int) model.LabelSet {
	return model.LabelSet{"alertname": model.LabelValue(name), "id": model.LabelValue(fmt.Sprintf("i%d", id))}
}

func c18FP(name string, id int) string { return c18Labels(name, id).Fingerprint().String() }

func c18Alert(name string, id int, end, now time.Time) *types.Alert {
	start := now
	if end.Before(now) {
		start = end.Add(-time.Minute)
	}
	return &types.Alert{
		Alert:     model.Alert{Labels: c18Labels(name, id), StartsAt: start, EndsAt: end},
		UpdatedAt: now,
	}
}

// ---- level: limit.Bucket (one bucket per name, replaced when judged stale: what store.gcLimitBuckets does)

type c18BucketSys struct {
	n       int
	buckets map[string]*limit.Bucket[model.Fingerprint]
}

func (s *c18BucketSys) upsert(name string, id, endSec int, now time.Time) c18Outcome {
	b := s.buckets[name]
	if b == nil {
		b = limit.NewBucket[model.Fingerprint](s.n)
		s.buckets[name] = b
	}
	end := now.Add(time.Duration(endSec) * time.Second)
	ok := b.Upsert(c18Labels(name, id).Fingerprint(), end)
	return c18Outcome{Refused: !ok, Stored: ok, Known: true, End: end}
}

func (s *c18BucketSys) gc() (stale []string, at time.Time) {
	for _, name := range c18Names {
		if b := s.buckets[name]; b != nil && b.IsStale() {
			stale = append(stale, name)
			delete(s.buckets, name)
		}
	}
	return stale, time.Now()
}
func (s *c18BucketSys) list() (map[string]c18Listed, bool, error) { return nil, false, nil }
func (s *c18BucketSys) close()                                    {}

// ---- level: store.Alerts with per-alert-name limit

type c18StoreSys struct{ st *store.Alerts }

func (s *c18StoreSys) upsert(name string, id, endSec int, now time.Time) c18Outcome {
	end := now.Add(time.Duration(endSec) * time.Second)
	a := c18Alert(name, id, end, now)
	err := s.st.Set(a)
	out := c18Outcome{Known: true, End: end}
	switch {
	case err == nil:
	case errors.Is(err, store.ErrLimited):
		out.Refused = true
	default:
		out.Err = "store.Set: " + err.Error()
	}
	got, gerr := s.st.Get(a.Fingerprint())
	out.Stored = gerr == nil && got.UpdatedAt.Equal(now)
	if out.Stored {
		out.End = got.EndsAt
	}
	return out
}
func (s *c18StoreSys) gc() ([]string, time.Time) { s.st.GC(); return nil, time.Now() }
func (s *c18StoreSys) list() (map[string]c18Listed, bool, error) {
	out := map[string]c18Listed{}
	for _, a := range s.st.List() {
		out[a.Fingerprint().String()] = c18Listed{Name: a.Name(), End: a.EndsAt}
	}
	return out, true, nil
}
func (s *c18StoreSys) close() {}

// ---- level: provider mem.Alerts

type c18ProviderSys struct {
	alerts *mem.Alerts
	reg    *prometheus.Registry
	gcSec  int
	cancel context.CancelFunc
	byName bool
}

func c18NewProvider(sc c18BucketScenario) (*c18ProviderSys, error) {
	ctx, cancel := context.WithCancel(context.Background())
	reg := prometheus.NewRegistry()
	var flags featurecontrol.Flagger = featurecontrol.NoopFlags{}
	if sc.NamesInMetrics {
		f, err := featurecontrol.NewFlags(nopLog, featurecontrol.FeatureAlertNamesInMetrics)
		if err != nil {
			cancel()
			return nil, err
		}
		flags = f
	}
	a, err := mem.NewAlerts(ctx, time.Duration(sc.GCSec)*time.Second, sc.N, nil, nopLog, eventrecorder.NopRecorder(), reg, flags)
	if err != nil {
		cancel()
		return nil, err
	}
	return &c18ProviderSys{alerts: a, reg: reg, gcSec: sc.GCSec, cancel: cancel, byName: sc.NamesInMetrics}, nil
}

// c18Counter sums a counter family of reg; with label filter alertname=name
// when the family carries that label and name != "".
func c18Counter(reg *prometheus.Registry, metric, name string) (float64, error) {
	mfs, err := reg.Gather()
	if err != nil {
		return 0, err
	}
	var sum float64
	for _, mf := range mfs {
		if mf.GetName() != metric {
			continue
		}
		for _, m := range mf.GetMetric() {
			match := true
			for _, lp := range m.GetLabel() {
				if lp.GetName() == "alertname" && name != "" && lp.GetValue() != name {
					match = false
				}
			}
			if match {
				sum += m.GetCounter().GetValue()
			}
		}
	}
	return sum, nil
}

const c18LimitedMetric = "alertmanager_alerts_limited_total"

func (s *c18ProviderSys) counters(name string) (total, forName float64, err error) {
	total, err = c18Counter(s.reg, c18LimitedMetric, "")
	if err != nil {
		return 0, 0, err
	}
	forName = total
	if s.byName {
		forName, err = c18Counter(s.reg, c18LimitedMetric, name)
	}
	return total, forName, err
}

func (s *c18ProviderSys) upsert(name string, id, endSec int, now time.Time) c18Outcome {
	end := now.Add(time.Duration(endSec) * time.Second)
	a := c18Alert(name, id, end, now)
	t0, n0, err := s.counters(name)
	if err != nil {
		return c18Outcome{Err: "gather: " + err.Error()}
	}
	if err := s.alerts.Put(context.Background(), a); err != nil {
		return c18Outcome{Err: "Put: " + err.Error()}
	}
	t1, n1, err := s.counters(name)
	if err != nil {
		return c18Outcome{Err: "gather: " + err.Error()}
	}
	out := c18Outcome{Known: true, End: end}
	switch {
	case t1-t0 == 1 && n1-n0 == 1:
		out.Refused = true
	case t1 == t0 && n1 == n0:
	default:
		out.Silent = fmt.Sprintf("%s moved by %v in total and %v for alertname=%s on one submission", c18LimitedMetric, t1-t0, n1-n0, name)
	}
	got, gerr := s.alerts.Get(a.Fingerprint())
	out.Stored = gerr == nil && got.UpdatedAt.Equal(now)
	if out.Stored {
		out.End = got.EndsAt
	}
	return out
}

// burst at provider level: all alerts in one Put.
func (s *c18ProviderSys) burst(name string, ids []int, endSec int, now time.Time) (stored []bool, ends []time.Time, dTotal, dName float64, errs string) {
	end := now.Add(time.Duration(endSec) * time.Second)
	var as []*types.Alert
	for _, id := range ids {
		as = append(as, c18Alert(name, id, end, now))
	}
	t0, n0, err := s.counters(name)
	if err != nil {
		return nil, nil, 0, 0, "gather: " + err.Error()
	}
	func() {
		defer func() {
			if p := recover(); p != nil {
				errs = fmt.Sprintf("Put panicked: %v", p)
			}
		}()
		if err := s.alerts.Put(context.Background(), as...); err != nil {
			errs = "Put: " + err.Error()
		}
	}()
	t1, n1, err := s.counters(name)
	if err != nil {
		return nil, nil, 0, 0, "gather: " + err.Error()
	}
	for _, a := range as {
		got, gerr := s.alerts.Get(a.Fingerprint())
		ok := gerr == nil && got.UpdatedAt.Equal(now)
		stored = append(stored, ok)
		if ok {
			ends = append(ends, got.EndsAt)
		} else {
			ends = append(ends, time.Time{})
		}
	}
	return stored, ends, t1 - t0, n1 - n0, errs
}

// gc at provider level: let the GC ticker (created at the epoch, period gcSec)
// fire at least once; the instant reported is the last tick.
func (s *c18ProviderSys) gc() ([]string, time.Time) {
	period := time.Duration(s.gcSec) * time.Second
	time.Sleep(period)
	synctest.Wait()
	return nil, c18Epoch.Add(time.Since(c18Epoch) / period * period)
}

func (s *c18ProviderSys) list() (map[string]c18Listed, bool, error) {
	out := map[string]c18Listed{}
	it := s.alerts.GetPending()
	defer it.Close()
	for a := range it.Next() {
		out[a.Data.Fingerprint().String()] = c18Listed{Name: a.Data.Name(), End: a.Data.EndsAt}
	}
	return out, true, it.Err()
}

func (s *c18ProviderSys) close() {
	s.alerts.Close()
	s.cancel()
	synctest.Wait()
}

// ---- level: POST/GET /api/v2/alerts on top of the provider

type c18APISys struct {
	*c18ProviderSys
	h http.Handler
}

const c18Config = "route:\n  receiver: r\nreceivers:\n- name: r\n"

func c18NewAPI(sc c18BucketScenario) (*c18APISys, error) {
	p, err := c18NewProvider(sc)
	if err != nil {
		return nil, err
	}
	api, err := apiv2.NewAPI(p.alerts, nil, func(string, string) ([]string, bool) { return nil, false }, nil, nil, nopLog, p.reg)
	if err != nil {
		p.close()
		return nil, err
	}
	cfg, err := config.Load(c18Config)
	if err != nil {
		p.close()
		return nil, err
	}
	api.Update(cfg, func(context.Context, model.LabelSet) {})
	return &c18APISys{c18ProviderSys: p, h: api.Handler}, nil
}

const c18TimeFmt = "2006-01-02T15:04:05.000Z07:00"

type c18GetAlert struct {
	Labels      map[string]string `json:"labels"`
	Fingerprint string            `json:"fingerprint"`
	EndsAt      time.Time         `json:"endsAt"`
	UpdatedAt   time.Time         `json:"updatedAt"`
}

func (s *c18APISys) get() ([]c18GetAlert, error) {
	rec := httptest.NewRecorder()
	s.h.ServeHTTP(rec, httptest.NewRequest(http.MethodGet, "/api/v2/alerts", nil))
	if rec.Code != http.StatusOK {
		return nil, fmt.Errorf("GET /api/v2/alerts: %d %s", rec.Code, rec.Body.String())
	}
	var out []c18GetAlert
	if err := json.Unmarshal(rec.Body.Bytes(), &out); err != nil {
		return nil, fmt.Errorf("GET /api/v2/alerts: %v", err)
	}
	return out, nil
}

func (s *c18APISys) upsert(name string, id, endSec int, now time.Time) c18Outcome {
	end := now.Add(time.Duration(endSec) * time.Second)
	pa := map[string]any{"labels": map[string]string{"alertname": name, "id": fmt.Sprintf("i%d", id)}}
	switch {
	case endSec == 0:
		// neither start nor end: the API assigns now and now+resolve_timeout
	case endSec > 0:
		pa["startsAt"] = now.UTC().Format(c18TimeFmt)
		pa["endsAt"] = end.UTC().Format(c18TimeFmt)
	default:
		pa["startsAt"] = end.Add(-time.Minute).UTC().Format(c18TimeFmt)
		pa["endsAt"] = end.UTC().Format(c18TimeFmt)
	}
	body, _ := json.Marshal([]any{pa})
	t0, n0, err := s.counters(name)
	if err != nil {
		return c18Outcome{Err: "gather: " + err.Error()}
	}
	req := httptest.NewRequest(http.MethodPost, "/api/v2/alerts", bytes.NewReader(body))
	req.Header.Set("Content-Type", "application/json")
	rec := httptest.NewRecorder()
	s.h.ServeHTTP(rec, req)
	if rec.Code != http.StatusOK {
		return c18Outcome{Err: fmt.Sprintf("POST /api/v2/alerts %s: %d %s", body, rec.Code, rec.Body.String())}
	}
	t1, n1, err := s.counters(name)
	if err != nil {
		return c18Outcome{Err: "gather: " + err.Error()}
	}
	out := c18Outcome{End: end}
	switch {
	case t1-t0 == 1 && n1-n0 == 1:
		out.Refused = true
	case t1 == t0 && n1 == n0:
	default:
		out.Silent = fmt.Sprintf("%s moved by %v in total and %v for alertname=%s on one submission", c18LimitedMetric, t1-t0, n1-n0, name)
	}
	listed, err := s.get()
	if err != nil {
		return c18Outcome{Err: err.Error()}
	}
	fp := c18FP(name, id)
	for _, a := range listed {
		if a.Fingerprint == fp && a.UpdatedAt.Equal(now) {
			out.Stored, out.Known, out.End = true, true, a.EndsAt
		}
	}
	if !out.Stored && endSec >= 0 {
		// an unexpired submission that was stored must be listed by GET
		out.Known = true
	}
	if !out.Known && !out.Refused {
		// Already expired submission, not refused: GET hides expired alerts, so
		// whether it is held cannot be seen at this level. It cannot be an
		// unexpired member, so the reference only needs to know it is expired.
		out.Stored = true
	}
	return out
}

// burst at API level: all alerts in one POST.
func (s *c18APISys) burst(name string, ids []int, endSec int, now time.Time) (stored []bool, ends []time.Time, dTotal, dName float64, errs string) {
	end := now.Add(time.Duration(endSec) * time.Second)
	var batch []any
	for _, id := range ids {
		batch = append(batch, map[string]any{"labels": map[string]string{"alertname": name, "id": fmt.Sprintf("i%d", id)},
			"startsAt": now.UTC().Format(c18TimeFmt), "endsAt": end.UTC().Format(c18TimeFmt)})
	}
	body, _ := json.Marshal(batch)
	t0, n0, err := s.counters(name)
	if err != nil {
		return nil, nil, 0, 0, "gather: " + err.Error()
	}
	func() {
		defer func() {
			if p := recover(); p != nil {
				errs = fmt.Sprintf("POST /api/v2/alerts panicked: %v", p)
			}
		}()
		req := httptest.NewRequest(http.MethodPost, "/api/v2/alerts", bytes.NewReader(body))
		req.Header.Set("Content-Type", "application/json")
		rec := httptest.NewRecorder()
		s.h.ServeHTTP(rec, req)
		if rec.Code != http.StatusOK {
			errs = fmt.Sprintf("POST /api/v2/alerts with %d alerts: %d %s", len(ids), rec.Code, rec.Body.String())
		}
	}()
	t1, n1, err := s.counters(name)
	if err != nil {
		return nil, nil, 0, 0, "gather: " + err.Error()
	}
	listed, lerr := s.get()
	if lerr != nil {
		return nil, nil, 0, 0, lerr.Error()
	}
	byFP := map[string]c18GetAlert{}
	for _, a := range listed {
		byFP[a.Fingerprint] = a
	}
	_ = end
	for _, id := range ids {
		// held with this submission's receive time (the API reports updatedAt to the millisecond)
		l, ok := byFP[c18FP(name, id)]
		ok = ok && l.UpdatedAt.Equal(now.Truncate(time.Millisecond))
		stored = append(stored, ok)
		if ok {
			ends = append(ends, l.EndsAt)
		} else {
			ends = append(ends, time.Time{})
		}
	}
	return stored, ends, t1 - t0, n1 - n0, errs
}

func (s *c18APISys) list() (map[string]c18Listed, bool, error) {
	listed, err := s.get()
	if err != nil {
		return nil, true, err
	}
	out := map[string]c18Listed{}
	for _, a := range listed {
		out[a.Fingerprint] = c18Listed{Name: a.Labels["alertname"], End: a.EndsAt}
	}
	return out, true, nil
}

// ---- interpreter + oracle

func c18ExecBucket(sc c18BucketScenario) (res pbt.Result) {
	bubble(func() {
		compat.InitFromFlags(nopLog, featurecontrol.NoopFlags{})
		var sys c18System
		switch sc.Level {
		case "bucket":
			sys = &c18BucketSys{n: sc.N, buckets: map[string]*limit.Bucket[model.Fingerprint]{}}
		case "store":
			sys = &c18StoreSys{st: store.NewAlerts().WithPerAlertLimit(sc.N)}
		case "provider":
			p, err := c18NewProvider(sc)
			if err != nil {
				res.Fail("harness", "provider: %v", err)
				return
			}
			sys = p
		case "api":
			a, err := c18NewAPI(sc)
			if err != nil {
				res.Fail("harness", "api: %v", err)
				return
			}
			sys = a
		default:
			res.Fail("harness", "unknown level %q", sc.Level)
			return
		}
		defer sys.close()

		model := ref.NewC18Admitted(sc.N)
		shadow := c18Shadow{n: sc.N, b: map[string]map[string]time.Time{}}
		var sawRefusal, sawGCUnexpired, sawResend, sawEvictExpired, sawFull, sawLateCopy, sawMultiRefusal bool

		for i, op := range sc.Ops {
			// the i-th op happens at whole seconds + (i+1) ms: an end (op instant +
			// whole seconds) never equals a later op instant or a GC tick
			time.Sleep(time.Millisecond)
			synctest.Wait()
			now := time.Now()
			where := fmt.Sprintf("step %d %+v at +%s", i, op, now.Sub(c18Epoch))

			switch op.Kind {
			case "advance":
				time.Sleep(time.Duration(op.DtSec) * time.Second)
				synctest.Wait()
			case "gc":
				stale, at := sys.gc()
				if model.AnyUnexpired(at) {
					sawGCUnexpired = true
				}
				shadow.gc(at)
				for _, name := range stale {
					if u := model.Unexpired(name, at); len(u) > 0 {
						res.Add(pbt.V("stale-with-unexpired", "%s: bucket of %s judged stale while %d admitted alerts are unexpired (%v)", where, name, len(u), u).
							With("unexpired", len(u)).With("level", sc.Level))
					}
				}
			case "late-copy":
				ss, ok := sys.(*c18StoreSys)
				if !ok {
					continue
				}
				name := c18Names[op.Name%len(c18Names)]
				a := c18Alert(name, op.ID, now.Add(time.Duration(op.EndSec)*time.Second), now)
				before, gerr := ss.st.Get(a.Fingerprint())
				if gerr != nil {
					continue // not held: a late copy of nothing is an ordinary submission, covered by upsert
				}
				a.UpdatedAt = before.UpdatedAt.Add(-time.Hour)
				if err := ss.st.Set(a); err != nil {
					res.Add(pbt.V("late-copy-error", "%s: a late copy of a held alert is answered with %v", where, err).With("level", sc.Level))
				}
				after, gerr := ss.st.Get(a.Fingerprint())
				if gerr != nil || !after.UpdatedAt.Equal(before.UpdatedAt) || !after.EndsAt.Equal(before.EndsAt) {
					res.Add(pbt.V("late-copy-applied", "%s: a late copy (update time one hour before the stored version's) changed the held alert: before end %s, after %v (err %v)", where, before.EndsAt, after, gerr).With("level", sc.Level))
				}
				sawLateCopy = true
			case "burst":
				bs, ok := sys.(interface {
					burst(name string, ids []int, endSec int, now time.Time) ([]bool, []time.Time, float64, float64, string)
				})
				if !ok {
					continue
				}
				name := c18Names[op.Name%len(c18Names)]
				var ids []int
				for j := 0; j < op.Count; j++ {
					ids = append(ids, 1000+100*i+j)
				}
				if op.Resend >= 0 {
					ids = append(ids, op.Resend)
				}
				stored, ends, dTotal, dName, errs := bs.burst(name, ids, op.EndSec, now)
				if errs != "" {
					res.Add(pbt.V("submission-failed", "%s: a submission of %d valid alerts failed: %s", where, len(ids), errs).With("level", sc.Level))
					return
				}
				refused := 0
				for j, id := range ids {
					fp := c18FP(name, id)
					if stored[j] {
						// (the end in force is the stored one: a re-send with an earlier explicit end keeps the later end)
						model.Accept(name, fp, ends[j])
						shadow.accept(name, fp, ends[j], now)
						continue
					}
					refused++
					sawRefusal = true
					if !model.RefusalAllowed(name, fp, now) {
						kind := "refused-with-room"
						if model.IsUnexpired(name, fp, now) {
							kind = "resend-refused"
						}
						res.Add(pbt.V(kind, "%s: alert %d of the batch (id %d) is not held with its new end although only %d of %d unexpired alerts of %s are admitted (re-send of an admitted unexpired alert: %v)", where, j, id, len(model.Unexpired(name, now)), sc.N, name, model.IsUnexpired(name, fp, now)).With("level", sc.Level))
					}
				}
				if refused >= 2 {
					sawMultiRefusal = true
				}
				if dTotal != float64(refused) || dName != float64(refused) {
					res.Add(pbt.V("refusal-report", "%s: %d alerts of the batch are not held, %s moved by %v in total and %v for alertname=%s", where, refused, c18LimitedMetric, dTotal, dName, name).With("level", sc.Level))
				}
			case "upsert":
				name := c18Names[op.Name%len(c18Names)]
				fp := c18FP(name, op.ID)
				wasMember := model.IsUnexpired(name, fp, now)
				unexp := model.Unexpired(name, now)
				out := sys.upsert(name, op.ID, op.EndSec, now)
				if out.Err != "" {
					res.Fail("harness", "%s: %s", where, out.Err)
					return
				}
				if out.Silent != "" {
					res.Add(pbt.V("refusal-report", "%s: %s", where, out.Silent).With("level", sc.Level))
				}
				if out.Known && out.Refused == out.Stored {
					if out.Refused {
						res.Add(pbt.V("refused-but-stored", "%s: refusal announced but the submission is held", where).With("level", sc.Level))
					} else {
						res.Add(pbt.V("silent-refusal", "%s: submission not held and no refusal announced (no error, %s unchanged)", where, c18LimitedMetric).With("level", sc.Level))
					}
				}
				if out.Refused {
					sawRefusal = true
					if !model.RefusalAllowed(name, fp, now) {
						kind := "refused-with-room"
						if wasMember {
							kind = "resend-refused"
						}
						res.Add(pbt.V(kind, "%s: refused although %d of %d unexpired alerts of %s are admitted (re-send of admitted unexpired alert: %v)", where, len(unexp), sc.N, name, wasMember).
							With("unexpired", len(unexp)).With("resend", wasMember).With("level", sc.Level))
					}
				} else if out.Stored {
					if wasMember {
						sawResend = true
					}
					if shadow.accept(name, fp, out.End, now) {
						sawEvictExpired = true
					}
					model.Accept(name, fp, out.End)
				}
			}

			// invariants after every step
			now = time.Now()
			for _, name := range c18Names {
				u := model.Unexpired(name, now)
				if len(u) == sc.N {
					sawFull = true
				}
				if len(u) > sc.N {
					res.Add(pbt.V("limit-exceeded", "%s: %d unexpired alerts of %s admitted under limit %d (%v)", where, len(u), name, sc.N, u).
						With("unexpired", len(u)).With("limit", sc.N).With("level", sc.Level))
				}
			}
			listed, has, err := sys.list()
			if err != nil {
				res.Fail("harness", "%s: list: %v", where, err)
				return
			}
			if has {
				perName := map[string][]string{}
				for fp, a := range listed {
					if a.End.After(now) {
						perName[a.Name] = append(perName[a.Name], fp)
					}
				}
				for name, fps := range perName {
					if len(fps) > sc.N {
						sort.Strings(fps)
						res.Add(pbt.V("limit-exceeded-listed", "%s: the system lists %d unexpired alerts of %s under limit %d (%v)", where, len(fps), name, sc.N, fps).
							With("unexpired", len(fps)).With("limit", sc.N).With("level", sc.Level))
					}
				}
				for _, name := range c18Names {
					for _, fp := range model.Unexpired(name, now) {
						end, _ := model.End(name, fp)
						got, ok := listed[fp]
						if !ok {
							res.Add(pbt.V("evicted-unexpired", "%s: admitted alert %s of %s (end +%s) is no longer listed although it has not expired", where, fp, name, end.Sub(c18Epoch)).
								With("level", sc.Level))
						} else if !got.End.Equal(end) {
							res.Add(pbt.V("end-changed", "%s: admitted alert %s of %s is listed with end +%s, admitted with +%s", where, fp, name, got.End.Sub(c18Epoch), end.Sub(c18Epoch)).
								With("level", sc.Level))
						}
					}
				}
			}
			if len(res.Violations) > 0 {
				return
			}
		}
		res.NonTrivial = sawRefusal && sawGCUnexpired
		res.Class("level-" + sc.Level)
		if sawRefusal {
			res.Class("refused")
		}
		if sawGCUnexpired {
			res.Class("gc-with-unexpired-member")
		}
		if sawResend {
			res.Class("resend-accepted")
		}
		if sawEvictExpired {
			res.Class("evicted-expired")
		}
		if sawFull {
			res.Class("bucket-full")
		}
		if sawLateCopy {
			res.Class("late-copy-of-held-alert")
		}
		if sawMultiRefusal {
			res.Class("several-refusals-in-one-submission")
		}
	})
	return res
}

// c18Shadow follows A.8 literally (known ⇒ update; room ⇒ insert; else the
// member with the smallest end makes room). It is used ONLY to label cases for
// the class histogram ("evicted-expired"), never by an oracle.
type c18Shadow struct {
	n int
	b map[string]map[string]time.Time
}

func (s *c18Shadow) accept(name, fp string, end, now time.Time) (evictedExpired bool) {
	m := s.b[name]
	if m == nil {
		m = map[string]time.Time{}
		s.b[name] = m
	}
	if _, ok := m[fp]; !ok && len(m) >= s.n {
		var min string
		for k, e := range m {
			if min == "" || e.Before(m[min]) {
				min = k
			}
		}
		evictedExpired = m[min].Before(now)
		delete(m, min)
	}
	m[fp] = end
	return evictedExpired
}

func (s *c18Shadow) gc(now time.Time) {
	for name, m := range s.b {
		all := true
		for _, e := range m {
			if !e.Before(now) {
				all = false
			}
		}
		if all {
			delete(s.b, name)
		}
	}
}

var c18Epoch = time.Date(2000, 1, 1, 0, 0, 0, 0, time.UTC)

const c18BucketRule = "history of upsert(name∈2, id from a universe of N+1..N+3, end ∈ future/past; store level: one in six is a late copy whose update time lies before the held version's and must change neither the alert nor the limit accounting) / advance / GC ops (provider and API level also: bursts of 2-5 new alerts of one name in ONE Put / POST, so that one call refuses several; every member is held or counted as refused, the call itself never fails), limit N∈1..4, " +
	"interpreted in a bubble against limit.Bucket, store.Alerts, provider mem.Alerts; non-trivial iff ≥1 refusal was announced AND a GC ran while ≥1 admitted alert was unexpired"

func TestC18Bucket(t *testing.T) {
	pbt.Run(t, pbt.Spec[c18BucketScenario]{
		Property: "C18", Name: "C18Bucket", Rule: c18BucketRule,
		Gen:  c18GenBucket([]string{"bucket", "store", "store", "provider", "provider"}),
		Exec: c18ExecBucket,
	})
}

func TestC18AlertsAPI(t *testing.T) {
	pbt.Run(t, pbt.Spec[c18BucketScenario]{
		Property: "C18", Name: "C18AlertsAPI",
		Rule: "same histories through POST /api/v2/alerts (incl. submissions without end time), observed through GET /api/v2/alerts and " + c18LimitedMetric +
			"; non-trivial iff ≥1 refusal AND a provider GC ran while ≥1 admitted alert was unexpired",
		Gen:  c18GenBucket([]string{"api"}),
		Exec: c18ExecBucket,
	})
}

// C13Limited: "every valid alert of a batch is stored … GET /api/v2/alerts returns exactly the alerts whose end time has
// not passed, with the merged times" when a per-alert-name limit is configured: the C18AlertsAPI histories judged for
// what C13 promises about alerts the limit has room for.
func TestC13Limited(t *testing.T) {
	pbt.Run(t, pbt.Spec[c18BucketScenario]{
		Property: "C13", Name: "C13Limited",
		Rule: "the histories of C18AlertsAPI (POST /api/v2/alerts under --alerts.per-alertname-limit 1-4: submissions of up to N+3 label sets of two alert names with future / past / omitted ends, bursts of several new alerts in one POST, advances, provider GC). Judged here: a valid alert is stored whenever the limit has room for it (fewer than N unexpired alerts of its name are admitted, or it is a re-send of an admitted one), an admitted unexpired alert stays listed with the end of its last accepted submission, and a POST of valid alerts never fails (kinds refused-with-room, resend-refused, silent-refusal, evicted-unexpired, end-changed, submission-failed). Non-trivial: as C18AlertsAPI.",
		Gen:  c18GenBucket([]string{"api"}),
		Exec: func(sc c18BucketScenario) pbt.Result {
			res := c18ExecBucket(sc)
			kept := res.Violations[:0]
			for _, v := range res.Violations {
				switch v.Kind {
				case "refused-with-room", "resend-refused", "silent-refusal", "evicted-unexpired", "end-changed", "submission-failed", "harness":
					kept = append(kept, v)
				}
			}
			res.Violations = kept
			return res
		},
	})
}
