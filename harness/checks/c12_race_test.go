package checks

// Two real-scheduler checks of the silence store's atomicity.
//
// C12ExpireRace: "Expiring takes effect immediately … an expired silence never becomes active again under its id",
// for every schedule: edits of a silence (comment / creator / end only) race with its expiry. A Snapshot into a
// writer that blocks holds the store's read lock while the racers queue up, so that the edits have taken their
// reference instant before the expiry runs and are applied after it. Once Expire has returned nil, the silence is
// expired under its id and stays so, whatever the edits answered.
//
// C11SnapshotAtomic: "a snapshot … never a torn, partial or mixed state": while Snapshot writes into a slow writer a
// single editor goroutine creates, edits, replaces (matcher change = expire + create) and expires silences. The
// editor's operations define the sequence of states S0 … Sn the store went through; what a new store loads from the
// snapshot must be exactly one of them.

import (
	"bytes"
	"context"
	"fmt"
	"sort"
	"strings"
	"sync"
	"testing"
	"time"

	"github.com/prometheus/client_golang/prometheus"
	"google.golang.org/protobuf/types/known/timestamppb"
	"pgregory.net/rapid"

	"github.com/prometheus/alertmanager/eventrecorder"
	"github.com/prometheus/alertmanager/featurecontrol"
	"github.com/prometheus/alertmanager/matcher/compat"
	"github.com/prometheus/alertmanager/silence"
	pb "github.com/prometheus/alertmanager/silence/silencepb"

	"verif/harness/pbt"
)

func c12raceNew(rd *bytes.Reader) (*silence.Silences, error) {
	o := silence.Options{Retention: time.Hour, Logger: nopLog, Metrics: prometheus.NewRegistry(), EventRecorder: eventrecorder.NopRecorder()}
	if rd != nil {
		o.SnapshotReader = rd
	}
	return silence.New(o)
}

func c12raceSil(id, val, comment string, start, end time.Time) *pb.Silence {
	return &pb.Silence{Id: id, MatcherSets: []*pb.MatcherSet{{Matchers: []*pb.Matcher{{Type: pb.Matcher_EQUAL, Name: "a", Pattern: val}}}},
		StartsAt: timestamppb.New(start), EndsAt: timestamppb.New(end), CreatedBy: "c12", Comment: comment}
}

// blockingWriter blocks its first Write until released (the caller of Snapshot holds the store's read lock meanwhile).
type blockingWriter struct {
	entered chan struct{}
	release chan struct{}
	once    sync.Once
}

func (w *blockingWriter) Write(b []byte) (int, error) {
	w.once.Do(func() { close(w.entered); <-w.release })
	return len(b), nil
}

type c12raceTarget struct {
	Pending bool     `json:"pending,omitempty"` // the silence starts in an hour (else: active)
	Edits   []string `json:"edits"`             // comment | creator | end: in-place edits racing with the expiry
	// ExpirePos: the expiry is started after that many of the edits (0 = first); all of them queue behind the held lock
	ExpirePos int `json:"expire_pos"`
}

type c12raceScenario struct {
	Targets []c12raceTarget `json:"targets"`
	Hold    bool            `json:"hold"`   // a blocked Snapshot holds the read lock while the racers are started
	GapUs   int             `json:"gap_us"` // real microseconds between the starts of two racers
	Rounds  int             `json:"rounds"`
}

func genC12ExpireRace(t *rapid.T) c12raceScenario {
	sc := c12raceScenario{Hold: rapid.IntRange(0, 3).Draw(t, "hold") != 0, GapUs: rapid.SampledFrom([]int{0, 20, 100, 300}).Draw(t, "gap"), Rounds: rapid.IntRange(2, 6).Draw(t, "rounds")}
	n := rapid.IntRange(1, 3).Draw(t, "targets")
	for i := 0; i < n; i++ {
		tg := c12raceTarget{Pending: rapid.IntRange(0, 3).Draw(t, "pending") == 0}
		k := rapid.IntRange(1, 3).Draw(t, "edits")
		for j := 0; j < k; j++ {
			tg.Edits = append(tg.Edits, rapid.SampledFrom([]string{"comment", "creator", "end"}).Draw(t, "edit"))
		}
		tg.ExpirePos = rapid.IntRange(0, k).Draw(t, "expirePos")
		sc.Targets = append(sc.Targets, tg)
	}
	return sc
}

func execC12ExpireRace(sc c12raceScenario) (res pbt.Result) {
	compat.InitFromFlags(nopLog, featurecontrol.NoopFlags{})
	ctx := context.Background()
	raced := 0
	for round := 0; round < sc.Rounds && len(res.Violations) == 0; round++ {
		s, err := c12raceNew(nil)
		if err != nil {
			res.Fail("harness", "silence.New: %v", err)
			return res
		}
		now := time.Now()
		ids := make([]string, len(sc.Targets))
		starts := make([]time.Time, len(sc.Targets))
		for i, tg := range sc.Targets {
			starts[i] = now.Add(-time.Minute)
			if tg.Pending {
				starts[i] = now.Add(time.Hour)
			}
			sil := c12raceSil("", fmt.Sprintf("t%d", i), "c0", starts[i], now.Add(2*time.Hour))
			if err := s.Set(ctx, sil); err != nil {
				res.Fail("harness", "Set: %v", err)
				return res
			}
			ids[i] = sil.Id
			starts[i] = sil.StartsAt.AsTime()
		}
		w := &blockingWriter{entered: make(chan struct{}), release: make(chan struct{})}
		var snapWG sync.WaitGroup
		if sc.Hold {
			snapWG.Add(1)
			go func() { defer snapWG.Done(); s.Snapshot(w) }()
			<-w.entered
		}
		var wg sync.WaitGroup
		expireErr := make([]error, len(sc.Targets))
		gap := func() {
			if sc.GapUs > 0 {
				time.Sleep(time.Duration(sc.GapUs) * time.Microsecond)
			}
		}
		for i, tg := range sc.Targets {
			launchExpire := func() {
				wg.Add(1)
				go func() { defer wg.Done(); expireErr[i] = s.Expire(ctx, ids[i]) }()
				gap()
			}
			for j, e := range tg.Edits {
				if j == tg.ExpirePos {
					launchExpire()
				}
				wg.Add(1)
				go func(j int, e string) {
					defer wg.Done()
					sil := c12raceSil(ids[i], fmt.Sprintf("t%d", i), "c0", starts[i], now.Add(2*time.Hour))
					switch e {
					case "comment":
						sil.Comment = fmt.Sprintf("edit %d", j)
					case "creator":
						sil.CreatedBy = fmt.Sprintf("editor %d", j)
					default:
						sil.EndsAt = timestamppb.New(now.Add(time.Duration(3+j) * time.Hour))
					}
					s.Set(ctx, sil) // whatever it answers
				}(j, e)
				gap()
			}
			if tg.ExpirePos >= len(tg.Edits) {
				launchExpire()
			}
		}
		if sc.Hold {
			time.Sleep(300 * time.Microsecond) // let the racers reach the lock
			close(w.release)
			snapWG.Wait()
		}
		wg.Wait()
		for i := range sc.Targets {
			if expireErr[i] != nil {
				res.Class("expire-refused")
				continue
			}
			raced++
			got, err := s.QueryOne(ctx, silence.QIDs(ids[i]))
			if err != nil {
				res.Add(pbt.V("expired-silence-lost", "silence %s was expired (Expire returned nil) while %d edit(s) raced; QueryOne now answers %v", ids[i], len(sc.Targets[i].Edits), err))
				continue
			}
			if at := time.Now(); got.EndsAt.AsTime().After(at) {
				res.Add(pbt.V("expired-silence-active-again", "silence %s (%s) was expired successfully while %d in-place edit(s) %v raced with the expiry (read lock held meanwhile: %v); afterwards it is stored with start %s end %s (now %s) comment %q: not expired under its id",
					ids[i], map[bool]string{true: "pending", false: "active"}[sc.Targets[i].Pending], len(sc.Targets[i].Edits), sc.Targets[i].Edits, sc.Hold,
					got.StartsAt.AsTime().Format(time.RFC3339Nano), got.EndsAt.AsTime().Format(time.RFC3339Nano), at.UTC().Format(time.RFC3339Nano), got.Comment))
			}
		}
	}
	res.NonTrivial = raced > 0 && sc.Hold
	return res
}

func TestC12ExpireRace(t *testing.T) {
	pbt.Run(t, pbt.Spec[c12raceScenario]{
		Property: "C12", Name: "C12ExpireRace",
		Rule: "real scheduler, real silence store: per round 1-3 active or pending silences; for each, 1-3 in-place edits (comment / creator / end, same start and matchers) and one Expire are started 0-300 us apart, in three cases of four while a Snapshot into a blocked writer holds the store's read lock so that every racer has entered its call before any of them is applied. After all calls returned: a silence whose Expire returned nil is stored, under its id, with an end that has passed. Non-trivial: the lock was held and >=1 expiry succeeded.",
		Gen:  genC12ExpireRace, Exec: execC12ExpireRace,
	})
}

// ------------------------------------------------------------------------------------------- C11SnapshotAtomic

type c11saOp struct {
	Kind string `json:"kind"` // create | edit | replace | expire
	Pick int    `json:"pick"`
}

type c11saScenario struct {
	Initial  int       `json:"initial"`
	Ops      []c11saOp `json:"ops"`
	PauseUs  int       `json:"pause_us"`  // the writer pauses that long (real time) in every Write
	LeadUs   int       `json:"lead_us"`   // the editor starts that long after the snapshot's first Write (negative: before Snapshot is called)
	ChunkLen int       `json:"chunk_len"` // the writer accepts at most that many bytes per Write (0 = all): short writes are legal for an io.Writer wrapped in io.Copy
	Rounds   int       `json:"rounds"`
}

func genC11SnapshotAtomic(t *rapid.T) c11saScenario {
	sc := c11saScenario{Initial: rapid.IntRange(2, 8).Draw(t, "initial"), PauseUs: rapid.SampledFrom([]int{50, 200, 500}).Draw(t, "pause"),
		LeadUs: rapid.SampledFrom([]int{-100, 0, 0, 50, 200}).Draw(t, "lead"), Rounds: rapid.IntRange(1, 4).Draw(t, "rounds")}
	n := rapid.IntRange(1, 6).Draw(t, "ops")
	for i := 0; i < n; i++ {
		sc.Ops = append(sc.Ops, c11saOp{Kind: rapid.SampledFrom([]string{"replace", "replace", "edit", "expire", "create"}).Draw(t, "kind"), Pick: rapid.IntRange(0, 7).Draw(t, "pick")})
	}
	return sc
}

type slowWriter struct {
	buf     bytes.Buffer
	pause   time.Duration
	started chan struct{}
	once    sync.Once
	writes  int
}

func (w *slowWriter) Write(b []byte) (int, error) {
	w.once.Do(func() { close(w.started) })
	w.writes++
	time.Sleep(w.pause)
	return w.buf.Write(b)
}

func c11saState(s *silence.Silences) (string, error) {
	sils, _, err := s.Query(context.Background())
	if err != nil {
		return "", err
	}
	var lines []string
	for _, x := range sils {
		lines = append(lines, fmt.Sprintf("%s a=%q %s..%s upd %s %q by %q", x.Id, x.MatcherSets[0].Matchers[0].Pattern, x.StartsAt.AsTime().Format(time.RFC3339Nano), x.EndsAt.AsTime().Format(time.RFC3339Nano),
			x.UpdatedAt.AsTime().Format(time.RFC3339Nano), x.Comment, x.CreatedBy))
	}
	sort.Strings(lines)
	return strings.Join(lines, "\n"), nil
}

func execC11SnapshotAtomic(sc c11saScenario) (res pbt.Result) {
	compat.InitFromFlags(nopLog, featurecontrol.NoopFlags{})
	ctx := context.Background()
	mixedPossible := false
	for round := 0; round < sc.Rounds && len(res.Violations) == 0; round++ {
		s, err := c12raceNew(nil)
		if err != nil {
			res.Fail("harness", "silence.New: %v", err)
			return res
		}
		now := time.Now()
		var ids []string
		for i := 0; i < sc.Initial; i++ {
			sil := c12raceSil("", fmt.Sprintf("v%d", i), "c0", now.Add(-time.Minute), now.Add(2*time.Hour))
			if err := s.Set(ctx, sil); err != nil {
				res.Fail("harness", "Set: %v", err)
				return res
			}
			ids = append(ids, sil.Id)
		}
		s0, err := c11saState(s)
		if err != nil {
			res.Fail("harness", "Query: %v", err)
			return res
		}
		states := []string{s0}
		w := &slowWriter{pause: time.Duration(sc.PauseUs) * time.Microsecond, started: make(chan struct{})}
		var wg sync.WaitGroup
		var mu sync.Mutex
		snapDone := make(chan struct{})
		editorGo := make(chan struct{})
		wg.Add(1)
		go func() { // the one writer of this store besides the set-up above
			defer wg.Done()
			<-editorGo
			for k, op := range sc.Ops {
				id := ids[op.Pick%len(ids)]
				var err error
				switch op.Kind {
				case "create":
					sil := c12raceSil("", fmt.Sprintf("n%d", k), "c0", now.Add(-time.Minute), now.Add(2*time.Hour))
					if err = s.Set(ctx, sil); err == nil {
						ids = append(ids, sil.Id)
					}
				case "edit":
					cur, qerr := s.QueryOne(ctx, silence.QIDs(id))
					if qerr != nil {
						continue
					}
					cur.Comment = fmt.Sprintf("edited %d", k)
					err = s.Set(ctx, cur)
				case "replace":
					cur, qerr := s.QueryOne(ctx, silence.QIDs(id))
					if qerr != nil {
						continue
					}
					cur.MatcherSets[0].Matchers[0].Pattern = fmt.Sprintf("r%d", k)
					if err = s.Set(ctx, cur); err == nil {
						ids = append(ids, cur.Id)
					}
				default:
					err = s.Expire(ctx, id)
				}
				_ = err
				if st, qerr := c11saState(s); qerr == nil {
					mu.Lock()
					states = append(states, st)
					mu.Unlock()
				}
			}
		}()
		if sc.LeadUs < 0 {
			close(editorGo)
			time.Sleep(time.Duration(-sc.LeadUs) * time.Microsecond)
		} else {
			go func() {
				select {
				case <-w.started:
					time.Sleep(time.Duration(sc.LeadUs) * time.Microsecond)
				case <-snapDone:
				}
				close(editorGo)
			}()
		}
		_, serr := s.Snapshot(w)
		close(snapDone)
		wg.Wait()
		if serr != nil {
			res.Add(pbt.V("snapshot-failed", "Snapshot into a slow but healthy writer failed: %v", serr))
			continue
		}
		if w.writes > 1 {
			mixedPossible = true
		}
		loaded, err := c12raceNew(bytes.NewReader(w.buf.Bytes()))
		if err != nil {
			res.Add(pbt.V("snapshot-unreadable", "the snapshot taken while an editor was working cannot be loaded: %v", err))
			continue
		}
		got, err := c11saState(loaded)
		if err != nil {
			res.Fail("harness", "Query of loaded store: %v", err)
			return res
		}
		ok := false
		for _, st := range states {
			if st == got {
				ok = true
				break
			}
		}
		if !ok {
			res.Add(pbt.V("torn-snapshot", "a snapshot written (in %d Write calls, %d us pause each) while one editor ran %v is none of the %d states the store went through.\nloaded from the snapshot:\n%s\nstate before the editor:\n%s\nstate after the editor:\n%s",
				w.writes, sc.PauseUs, sc.Ops, len(states), got, states[0], states[len(states)-1]))
		}
	}
	_ = mixedPossible
	res.NonTrivial = len(sc.Ops) > 0
	for _, op := range sc.Ops {
		if op.Kind == "replace" {
			res.Class("with-replace")
		}
	}
	return res
}

func TestC11SnapshotAtomic(t *testing.T) {
	pbt.Run(t, pbt.Spec[c11saScenario]{
		Property: "C11", Name: "C11SnapshotAtomic",
		Rule: "real scheduler, real silence store with 2-8 active silences: Snapshot writes into a writer that pauses 50-500 us of real time in every Write while one editor goroutine (started shortly before the call, or 0-200 us after the writer received its first bytes) runs 1-6 operations: create, in-place edit, replacing edit (matcher change: the old silence is expired and a new one created in one step), expire. The editor records the store's content after each operation; a new store loaded from the snapshot must list exactly one of those states (ids, matchers, times, comments). Non-trivial: always (the editor has >=1 operation).",
		Gen:  genC11SnapshotAtomic, Exec: execC11SnapshotAtomic,
	})
}
