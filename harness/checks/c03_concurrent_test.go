package checks

// C03Concurrent: "the verdict depends only on the set of currently firing alerts, not on the order in which they
// arrived" at the start of an inhibitor (every configuration reload builds a new one over a provider that already
// holds alerts): an update of a source alert that arrives while the new inhibitor is still taking in the provider's
// snapshot must win over the snapshot's version of that alert. Real scheduler; the update is put by a thin provider
// wrapper right after the inhibitor has taken its snapshot and subscription, i.e. at the earliest instant an ordinary
// POST can land during start-up; a few thousand other source alerts make the start-up take a while.

import (
	"context"
	"fmt"
	"testing"
	"time"

	"github.com/prometheus/client_golang/prometheus"
	"github.com/prometheus/common/model"
	"pgregory.net/rapid"

	"github.com/prometheus/alertmanager/alert"
	amcommoncfg "github.com/prometheus/alertmanager/config/common"
	"github.com/prometheus/alertmanager/eventrecorder"
	"github.com/prometheus/alertmanager/featurecontrol"
	"github.com/prometheus/alertmanager/inhibit"
	"github.com/prometheus/alertmanager/marker"
	"github.com/prometheus/alertmanager/pkg/labels"
	"github.com/prometheus/alertmanager/provider"
	"github.com/prometheus/alertmanager/provider/mem"

	"verif/harness/pbt"
)

type c03cScenario struct {
	Fillers int  `json:"fillers"`  // other firing source alerts in the provider
	Refire  bool `json:"refire"`   // the snapshot holds the source resolved and it fires again during start-up (else: firing, resolves)
	Equal   bool `json:"equal"`    // the rule has an equal label
	Pos     int  `json:"position"` // the contested source is put after this many fillers (its place in the snapshot varies with map order anyway)
}

func genC03Concurrent(t *rapid.T) c03cScenario {
	return c03cScenario{Fillers: rapid.SampledFrom([]int{0, 300, 3000, 8000}).Draw(t, "fillers"), Refire: rapid.Bool().Draw(t, "refire"),
		Equal: rapid.Bool().Draw(t, "equal"), Pos: rapid.IntRange(0, 300).Draw(t, "pos")}
}

// c03cProvider puts one update right after the inhibitor has taken its snapshot and subscription.
type c03cProvider struct {
	provider.Alerts
	update *alert.Alert
	done   chan struct{}
}

func (p *c03cProvider) SlurpAndSubscribe(name string) ([]*alert.Alert, provider.AlertIterator) {
	as, it := p.Alerts.SlurpAndSubscribe(name)
	if p.update != nil {
		u := p.update
		p.update = nil
		p.Alerts.Put(context.Background(), u)
		close(p.done)
	}
	return as, it
}

func execC03Concurrent(sc c03cScenario) (res pbt.Result) {
	ctx, cancel := context.WithCancel(context.Background())
	defer cancel()
	alerts, err := mem.NewAlerts(ctx, time.Hour, 0, nil, nopLog, eventrecorder.NopRecorder(), prometheus.NewRegistry(), featurecontrol.NoopFlags{})
	if err != nil {
		res.Fail("harness", "mem.NewAlerts: %v", err)
		return res
	}
	defer alerts.Close()
	eq := func(n, v string) amcommoncfg.Matchers {
		m, _ := labels.NewMatcher(labels.MatchEqual, n, v)
		return amcommoncfg.Matchers{m}
	}
	rule := amcommoncfg.InhibitRule{SourceMatchers: eq("kind", "source"), TargetMatchers: eq("kind", "target")}
	if sc.Equal {
		rule.Equal = []string{"cluster"}
	}
	t0 := time.Now()
	mk := func(ls model.LabelSet, firing bool, upd time.Time) *alert.Alert {
		a := &alert.Alert{Alert: model.Alert{Labels: ls, StartsAt: upd.Add(-time.Minute), EndsAt: upd.Add(time.Hour)}, UpdatedAt: upd}
		if !firing {
			a.EndsAt = upd.Add(-time.Second)
			a.StartsAt = a.EndsAt.Add(-time.Minute)
		}
		return a
	}
	source := model.LabelSet{"kind": "source", "cluster": "c1", "n": "contested"}
	target := model.LabelSet{"kind": "target", "cluster": "c1"}
	for i := 0; i < sc.Fillers; i++ {
		if i == sc.Pos {
			alerts.Put(ctx, mk(source, !sc.Refire, t0))
		}
		// fillers never match the target's cluster when the rule has an equal label; without one they would inhibit it
		// themselves, so they are sources of ANOTHER rule-irrelevant kind then
		kind := model.LabelValue("source")
		if !sc.Equal {
			kind = "bystander"
		}
		alerts.Put(ctx, mk(model.LabelSet{"kind": kind, "cluster": "other", "n": model.LabelValue(fmt.Sprint(i))}, true, t0))
	}
	if sc.Pos >= sc.Fillers {
		alerts.Put(ctx, mk(source, !sc.Refire, t0))
	}
	// the update that lands during start-up: received after the snapshot's version
	wrapped := &c03cProvider{Alerts: alerts, update: mk(source, sc.Refire, t0.Add(time.Second)), done: make(chan struct{})}
	// firing → resolved only overlaps the stored version when the resolved version's range lies inside it: use an
	// explicit end "now" for the resolution so that provider and inhibitor see an ordinary resolve
	if !sc.Refire {
		wrapped.update.StartsAt = t0.Add(-time.Minute)
		wrapped.update.EndsAt = t0.Add(-time.Millisecond)
	}
	ih := inhibit.NewInhibitor(wrapped, []amcommoncfg.InhibitRule{rule}, nopLog, eventrecorder.NopRecorder())
	go ih.Run()
	defer ih.Stop()
	ih.WaitForLoading()
	select {
	case <-wrapped.done:
	case <-time.After(10 * time.Second):
		res.Fail("harness", "the inhibitor never subscribed")
		return res
	}
	// ground truth: what the provider holds
	cur, err := alerts.Get(source.Fingerprint())
	if err != nil {
		res.Fail("harness", "provider lost the contested source: %v", err)
		return res
	}
	want := cur.EndsAt.After(time.Now())
	// the update may still sit in the subscription: give the inhibitor time to apply it; the verdict must become right
	// and stay right
	deadline := time.Now().Add(3 * time.Second)
	okSince := time.Time{}
	var got bool
	for time.Now().Before(deadline) {
		got = ih.Mutes(marker.WithContext(context.Background(), marker.NewAlertMarker()), target)
		if got == want {
			if okSince.IsZero() {
				okSince = time.Now()
			} else if time.Since(okSince) > 150*time.Millisecond {
				break
			}
		} else {
			okSince = time.Time{}
		}
		time.Sleep(5 * time.Millisecond)
	}
	if got != want || okSince.IsZero() {
		res.Add(pbt.V("verdict-follows-stale-snapshot", "an update of the source alert arrived while the new inhibitor was loading %d alerts: the provider holds it %s, but 3 s later Mutes(target)=%v", sc.Fillers+1, map[bool]string{true: "firing", false: "resolved"}[want], got).
			With("refire", sc.Refire).With("fillers", sc.Fillers))
	}
	res.NonTrivial = sc.Fillers >= 300
	res.Class(fmt.Sprintf("fillers-%d", sc.Fillers))
	return res
}

func TestC03Concurrent(t *testing.T) {
	pbt.Run(t, pbt.Spec[c03cScenario]{
		Property: "C03", Name: "C03Concurrent",
		Rule: "a real provider holding one contested source alert (firing, or resolved), its target's rule (with or without an equal label) and 0-8000 other firing alerts; a new Inhibitor is started on it (real scheduler) and a thin provider wrapper puts the next version of the contested source (its resolution, or its re-fire) right after the inhibitor has taken its snapshot and subscription. Once loading has finished the verdict for the target must become, within 3 s, and then stay for 150 ms, what the provider's content says (the update wins over the snapshot's version). Built with -race in the thorough tier. Non-trivial: at least 300 other alerts are loaded.",
		Gen:  genC03Concurrent, Exec: execC03Concurrent,
	})
}
