package checks

// C03Concurrent: "the verdict depends only on the set of currently firing alerts, not on the order in which they
// arrived" at the start of an inhibitor (every configuration reload builds a new one over a provider that already
// holds alerts): an update of a source alert that arrives while the new inhibitor is still taking in the provider's
// snapshot must win over the snapshot's version of that alert. Real scheduler; the update is put by a thin provider
// wrapper right after the inhibitor has taken its snapshot and subscription, i.e. at the earliest instant an ordinary
// POST can land during start-up; a few thousand other source alerts make the start-up take a while.

import (
	"context"
	"fmt"
	"testing"
	"time"

	"github.com/prometheus/client_golang/prometheus"
	"github.com/prometheus/common/model"
	"pgregory.net/rapid"

	"github.com/prometheus/alertmanager/alert"
	amcommoncfg "github.com/prometheus/alertmanager/config/common"
	"github.com/prometheus/alertmanager/eventrecorder"
	"github.com/prometheus/alertmanager/featurecontrol"
	"github.com/prometheus/alertmanager/inhibit"
	"github.com/prometheus/alertmanager/marker"
	"github.com/prometheus/alertmanager/pkg/labels"
	"github.com/prometheus/alertmanager/provider"
	"github.com/prometheus/alertmanager/provider/mem"

	"verif/harness/pbt"
)

type c03cScenario struct {
	Fillers int  `json:"fillers"`  // other firing source alerts in the provider
	Refire  bool `json:"refire"`   // the snapshot holds the source resolved and it fires again during start-up (else: firing, resolves)
	Equal   bool `json:"equal"`    // the rule has an equal label
	Pos     int  `json:"position"` // the contested source is put after this many fillers (its place in the snapshot varies with map order anyway)
}

func genC03Concurrent(t *rapid.T) c03cScenario {
	return c03cScenario{Fillers: rapid.SampledFrom([]int{0, 300, 3000, 8000}).Draw(t, "fillers"), Refire: rapid.Bool().Draw(t, "refire"),
		Equal: rapid.Bool().Draw(t, "equal"), Pos: rapid.IntRange(0, 300).Draw(t, "pos")}
}

// c03cProvider puts one update right after the inhibitor has taken its snapshot and subscription.
type c03cProvider struct {
	provider.Alerts
	update *alert.Alert
	done   chan struct{}
}

func (p *c03cProvider) SlurpAndSubscribe(name string) ([]*alert.Alert, provider.AlertIterator) {
	as, it := p.Alerts.SlurpAndSubscribe(name)
	if p.update != nil {
		u := p.update
		p.update = nil
		p.Alerts.Put(context.Background(), u)
		close(p.done)
	}
	return as, it
}

func execC03Concurrent(sc c03cScenario) (res pbt.Result) {
	ctx, cancel := context.WithCancel(context.Background())
	defer cancel()
	alerts, err := mem.NewAlerts(ctx, time.Hour, 0, nil, nopLog, eventrecorder.NopRecorder(), prometheus.NewRegistry(), featurecontrol.NoopFlags{})
	if err != nil {
		res.Fail("harness", "mem.NewAlerts: %v", err)
		return res
	}
	defer alerts.Close()
	eq := func(n, v string) amcommoncfg.Matchers {
		m, _ := labels.NewMatcher(labels.MatchEqual, n, v)
		return amcommoncfg.Matchers{m}
	}
	rule := amcommoncfg.InhibitRule{SourceMatchers: eq("kind", "source"), TargetMatchers: eq("kind", "target")}
	if sc.Equal {
		rule.Equal = []string{"cluster"}
	}
	t0 := time.Now()
	mk := func(ls model.LabelSet, firing bool, upd time.Time) *alert.Alert {
		a := &alert.Alert{Alert: model.Alert{Labels: ls, StartsAt: upd.Add(-time.Minute), EndsAt: upd.Add(time.Hour)}, UpdatedAt: upd}
		if !firing {
			a.EndsAt = upd.Add(-time.Second)
			a.StartsAt = a.EndsAt.Add(-time.Minute)
		}
		return a
	}
	source := model.LabelSet{"kind": "source", "cluster": "c1", "n": "contested"}
	target := model.LabelSet{"kind": "target", "cluster": "c1"}
	for i := 0; i < sc.Fillers; i++ {
		if i == sc.Pos {
			alerts.Put(ctx, mk(source, !sc.Refire, t0))
		}
		// fillers never match the target's cluster when the rule has an equal label; without one they would inhibit it
		// themselves, so they are sources of ANOTHER rule-irrelevant kind then
		kind := model.LabelValue("source")
		if !sc.Equal {
			kind = "bystander"
		}
		alerts.Put(ctx, mk(model.LabelSet{"kind": kind, "cluster": "other", "n": model.LabelValue(fmt.Sprint(i))}, true, t0))
	}
	if sc.Pos >= sc.Fillers {
		alerts.Put(ctx, mk(source, !sc.Refire, t0))
	}
	// the update that lands during start-up: received after the snapshot's version
	wrapped := &c03cProvider{Alerts: alerts, update: mk(source, sc.Refire, t0.Add(time.Second)), done: make(chan struct{})}
	// firing → resolved only overlaps the stored version when the resolved version's range lies inside it: use an
	// explicit end "now" for the resolution so that provider and inhibitor see an ordinary resolve
	if !sc.Refire {
		wrapped.update.StartsAt = t0.Add(-time.Minute)
		wrapped.update.EndsAt = t0.Add(-time.Millisecond)
	}
	ih := inhibit.NewInhibitor(wrapped, []amcommoncfg.InhibitRule{rule}, nopLog, eventrecorder.NopRecorder())
	go ih.Run()
	defer ih.Stop()
	ih.WaitForLoading()
	select {
	case <-wrapped.done:
	case <-time.After(10 * time.Second):
		res.Fail("harness", "the inhibitor never subscribed")
		return res
	}
	// ground truth: what the provider holds
	cur, err := alerts.Get(source.Fingerprint())
	if err != nil {
		res.Fail("harness", "provider lost the contested source: %v", err)
		return res
	}
	want := cur.EndsAt.After(time.Now())
	// the update may still sit in the subscription: give the inhibitor time to apply it; the verdict must become right
	// and stay right
	deadline := time.Now().Add(3 * time.Second)
	okSince := time.Time{}
	var got bool
	for time.Now().Before(deadline) {
		got = ih.Mutes(marker.WithContext(context.Background(), marker.NewAlertMarker()), target)
		if got == want {
			if okSince.IsZero() {
				okSince = time.Now()
			} else if time.Since(okSince) > 150*time.Millisecond {
				break
			}
		} else {
			okSince = time.Time{}
		}
		time.Sleep(5 * time.Millisecond)
	}
	if got != want || okSince.IsZero() {
		res.Add(pbt.V("verdict-follows-stale-snapshot", "an update of the source alert arrived while the new inhibitor was loading %d alerts: the provider holds it %s, but 3 s later Mutes(target)=%v", sc.Fillers+1, map[bool]string{true: "firing", false: "resolved"}[want], got).
			With("refire", sc.Refire).With("fillers", sc.Fillers))
	}
	res.NonTrivial = sc.Fillers >= 300
	res.Class(fmt.Sprintf("fillers-%d", sc.Fillers))
	return res
}

func TestC03Concurrent(t *testing.T) {
	pbt.Run(t, pbt.Spec[c03cScenario]{
		Property: "C03", Name: "C03Concurrent",
		Rule: "a real provider holding one contested source alert (firing, or resolved), its target's rule (with or without an equal label) and 0-8000 other firing alerts; a new Inhibitor is started on it (real scheduler) and a thin provider wrapper puts the next version of the contested source (its resolution, or its re-fire) right after the inhibitor has taken its snapshot and subscription. Once loading has finished the verdict for the target must become, within 3 s, and then stay for 150 ms, what the provider's content says (the update wins over the snapshot's version). Built with -race in the thorough tier. Non-trivial: at least 300 other alerts are loaded.",
		Gen:  genC03Concurrent, Exec: execC03Concurrent,
	})
}

// ------------------------------------------------------------------ racing submissions

// C03ConcurrentPuts: two requests update the same source alert at the same time (a re-send as firing inside a large
// batch, and its resolution). Whatever the interleaving, once both have returned and the inhibitor has caught up, its
// verdict follows what the provider holds.

type c03pScenario struct {
	Batch     int  `json:"batch"`      // alerts in the large request; the contested source is its last one
	ResolveIs bool `json:"resolve_is"` // true: the small request resolves (large one re-sends firing); false: the small one re-fires a resolved source (large one carries the resolution)
}

func genC03ConcurrentPuts(t *rapid.T) c03pScenario {
	return c03pScenario{Batch: rapid.SampledFrom([]int{50, 1000, 4000}).Draw(t, "batch"), ResolveIs: rapid.Bool().Draw(t, "resolveIs")}
}

type c03pCallback struct {
	fp     model.Fingerprint
	seen   chan struct{}
	fired  bool
	waitMs int
}

func (c *c03pCallback) PreStore(a *alert.Alert, _ bool) error {
	if !c.fired && a.Fingerprint() == c.fp && a.Annotations["req"] == "large" {
		c.fired = true
		close(c.seen)
	}
	return nil
}
func (c *c03pCallback) PostStore(*alert.Alert, bool) {}
func (c *c03pCallback) PostDelete(*alert.Alert)      {}
func (c *c03pCallback) PostGC(model.Fingerprints)    {}

func execC03ConcurrentPuts(sc c03pScenario) (res pbt.Result) {
	ctx, cancel := context.WithCancel(context.Background())
	defer cancel()
	source := model.LabelSet{"kind": "source", "cluster": "c1", "n": "contested"}
	target := model.LabelSet{"kind": "target", "cluster": "c1"}
	cb := &c03pCallback{fp: source.Fingerprint(), seen: make(chan struct{})}
	alerts, err := mem.NewAlerts(ctx, time.Hour, 0, cb, nopLog, eventrecorder.NopRecorder(), prometheus.NewRegistry(), featurecontrol.NoopFlags{})
	if err != nil {
		res.Fail("harness", "mem.NewAlerts: %v", err)
		return res
	}
	defer alerts.Close()
	eq := func(n, v string) amcommoncfg.Matchers {
		m, _ := labels.NewMatcher(labels.MatchEqual, n, v)
		return amcommoncfg.Matchers{m}
	}
	rule := amcommoncfg.InhibitRule{SourceMatchers: eq("kind", "source"), TargetMatchers: eq("kind", "target"), Equal: []string{"cluster"}}
	ih := inhibit.NewInhibitor(alerts, []amcommoncfg.InhibitRule{rule}, nopLog, eventrecorder.NopRecorder())
	go ih.Run()
	defer ih.Stop()
	ih.WaitForLoading()
	t0 := time.Now()
	mk := func(ls model.LabelSet, firing bool, upd time.Time, req string) *alert.Alert {
		a := &alert.Alert{Alert: model.Alert{Labels: ls, StartsAt: t0.Add(-time.Minute), EndsAt: upd.Add(time.Hour), Annotations: model.LabelSet{"req": model.LabelValue(req)}}, UpdatedAt: upd}
		if !firing {
			a.EndsAt = t0.Add(-time.Millisecond) // (the update times lie a second or two ahead: the end must not)
		}
		return a
	}
	// the source as stored before the race
	alerts.Put(ctx, mk(source, sc.ResolveIs, t0, "initial"))
	var large []*alert.Alert
	for i := 0; i < sc.Batch; i++ {
		large = append(large, mk(model.LabelSet{"kind": "bystander", "cluster": "other", "n": model.LabelValue(fmt.Sprint(i))}, true, t0.Add(time.Second), "large"))
	}
	// large request: received first (older update time); small request: received second
	large = append(large, mk(source, sc.ResolveIs, t0.Add(time.Second), "large"))
	small := mk(source, !sc.ResolveIs, t0.Add(2*time.Second), "small")
	done := make(chan struct{}, 2)
	go func() { alerts.Put(ctx, large...); done <- struct{}{} }()
	go func() {
		select {
		case <-cb.seen:
		case <-time.After(10 * time.Second):
		}
		alerts.Put(ctx, small)
		done <- struct{}{}
	}()
	<-done
	<-done
	cur, err := alerts.Get(source.Fingerprint())
	if err != nil {
		res.Fail("harness", "provider lost the contested source: %v", err)
		return res
	}
	want := cur.EndsAt.After(time.Now())
	deadline := time.Now().Add(3 * time.Second)
	okSince := time.Time{}
	var got bool
	for time.Now().Before(deadline) {
		got = ih.Mutes(marker.WithContext(context.Background(), marker.NewAlertMarker()), target)
		if got == want {
			if okSince.IsZero() {
				okSince = time.Now()
			} else if time.Since(okSince) > 150*time.Millisecond {
				break
			}
		} else {
			okSince = time.Time{}
		}
		time.Sleep(5 * time.Millisecond)
	}
	if got != want || okSince.IsZero() {
		res.Add(pbt.V("verdict-follows-stale-publication", "two requests updated the source alert at the same time (a batch of %d ending with it, and a single update received later): the provider holds it %s, but 3 s later Mutes(target)=%v", sc.Batch+1, map[bool]string{true: "firing", false: "resolved"}[want], got).With("batch", sc.Batch))
	}
	res.NonTrivial = sc.Batch >= 1000
	res.Class(fmt.Sprintf("batch-%d", sc.Batch))
	return res
}

func TestC03ConcurrentPuts(t *testing.T) {
	pbt.Run(t, pbt.Spec[c03pScenario]{
		Property: "C03", Name: "C03ConcurrentPuts",
		Rule: "a real provider, a running Inhibitor and one rule; a large Put (50-4000 bystanders followed by a version of the contested source alert) races a single Put of the next version of that source (started when the provider is about to store the large request's version): one is its resolution, the other a firing re-send. After both returned, the verdict for the target must become within 3 s, and then stay for 150 ms, what the provider's stored version says. Real scheduler; built with -race in the thorough tier. Non-trivial: the large request has at least 1000 alerts.",
		Gen:  genC03ConcurrentPuts, Exec: execC03ConcurrentPuts,
	})
}
