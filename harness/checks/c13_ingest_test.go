package checks

// C13 — alert ingestion: defaults, merge and visibility follow the API contract.
//
// Engine E2: the real POST/GET /api/v2/alerts handlers over the real memory
// provider (GC ticker running) in a synctest bubble, compared after every step
// with ref.C13AlertStore (DESIGN Appendix A.1), which is written from the
// property statement and docs/alerts_api.md.

import (
	"bytes"
	"context"
	"encoding/json"
	"fmt"
	"net/http"
	"net/http/httptest"
	"net/url"
	"sort"
	"strings"
	"testing"
	"testing/synctest"
	"time"

	"github.com/prometheus/client_golang/prometheus"
	"github.com/prometheus/common/model"
	"pgregory.net/rapid"

	"github.com/prometheus/alertmanager/alert"
	apiv2 "github.com/prometheus/alertmanager/api/v2"
	"github.com/prometheus/alertmanager/config"
	"github.com/prometheus/alertmanager/dispatch"
	"github.com/prometheus/alertmanager/eventrecorder"
	"github.com/prometheus/alertmanager/featurecontrol"
	"github.com/prometheus/alertmanager/inhibit"
	"github.com/prometheus/alertmanager/matcher/compat"
	"github.com/prometheus/alertmanager/provider/mem"
	"github.com/prometheus/alertmanager/silence"

	"verif/harness/gen"
	"verif/harness/pbt"
	"verif/harness/ref"
)

// ------------------------------------------------------------------ scenario

// c13Alert is one element of a POST body. Times are absolute milliseconds
// since the start of the bubble (nil = field omitted).
type c13Alert struct {
	Labels      map[string]string `json:"labels"`
	Annotations map[string]string `json:"annotations,omitempty"`
	StartMs     *int64            `json:"start_ms,omitempty"`
	EndMs       *int64            `json:"end_ms,omitempty"`
}

type c13Op struct {
	Op     string        `json:"op"`               // post | advance | get
	Batch  []c13Alert    `json:"batch,omitempty"`  // post
	Ms     int64         `json:"ms,omitempty"`     // advance: whole seconds + 1 ms
	Filter []ref.Matcher `json:"filter,omitempty"` // get: filter= matchers
}

type c13Scenario struct {
	Mode            string `json:"mode"` // fallback (production default) | classic | utf8
	ResolveTimeoutS int    `json:"resolve_timeout_s"`
	GCIntervalS     int    `json:"gc_interval_s"`
	// PhaseNs shifts every instant of the history (receive times and submitted times alike) by a sub-millisecond
	// amount: the API speaks milliseconds, the store nanoseconds
	PhaseNs int64   `json:"phase_ns,omitempty"`
	Ops     []c13Op `json:"ops"`
}

// ----------------------------------------------------------------- generator

var (
	c13AdvanceS = []int{0, 1, 2, 5, 10, 20, 29, 31, 45, 60, 61, 90, 119, 121, 200, 299, 301, 400, 900, 2000}
	c13PastS    = []int{1, 2, 5, 10, 20, 30, 45, 60, 90, 120, 200, 300, 600, 1200}
	c13FutureS  = []int{1, 2, 5, 10, 20, 30, 45, 60, 90, 120, 200, 300, 600, 1200, 3600}
	c13Summary  = []string{"s1", "s2", "s3", ""} // an annotation may be empty (a template that rendered to nothing)
)

func c13P(t *rapid.T, pct int, label string) bool {
	return rapid.IntRange(0, 99).Draw(t, label) < pct
}

func genC13Identity(t *rapid.T, mode string) map[string]string {
	ls := map[string]string{"alertname": rapid.SampledFrom([]string{"A", "B"}).Draw(t, "alertname")}
	for _, n := range gen.UniNames {
		if v := rapid.SampledFrom([]string{"", "", "x", "y", "z"}).Draw(t, "lv"); v != "" {
			ls[n] = v
		}
	}
	if mode != "classic" && c13P(t, 10, "utf8name") {
		// valid only under the UTF-8 name rules
		ls[rapid.SampledFrom([]string{"a-b", "世"}).Draw(t, "uname")] = "x"
	}
	return ls
}

func c13Unused(n int, used map[int]bool) []int {
	var out []int
	for i := 0; i < n; i++ {
		if !used[i] {
			out = append(out, i)
		}
	}
	return out
}

func genC13(t *rapid.T) c13Scenario {
	sc := c13Scenario{
		Mode:            rapid.SampledFrom([]string{"fallback", "fallback", "fallback", "classic", "utf8"}).Draw(t, "mode"),
		ResolveTimeoutS: rapid.SampledFrom([]int{30, 120, 300}).Draw(t, "resolve_timeout"),
		GCIntervalS:     rapid.SampledFrom([]int{60, 300, 1800}).Draw(t, "gc_interval"),
	}
	if c13P(t, 40, "phase") {
		sc.PhaseNs = rapid.SampledFrom([]int64{1, 499_999, 500_000, 500_001, 999_000, 999_999, 123_456}).Draw(t, "phaseNs")
	}
	nIdent := rapid.IntRange(1, 3).Draw(t, "nIdent")
	idents := make([]map[string]string, nIdent)
	for i := range idents {
		idents[i] = genC13Identity(t, sc.Mode)
	}
	maxOps := 12
	if pbt.Thorough() {
		maxOps = 30
	}
	nops := rapid.IntRange(3, maxOps).Draw(t, "nops")
	now := int64(1) // Exec sleeps 1 ms before the first op
	lastStart := map[int]int64{}
	p := func(v int64) *int64 { return &v }
	for i := 0; i < nops; i++ {
		switch k := rapid.IntRange(0, 10).Draw(t, "opKind"); {
		case k <= 4: // post
			nb := rapid.SampledFrom([]int{1, 1, 2, 2, 3, 4}).Draw(t, "batchN")
			op := c13Op{Op: "post"}
			used := map[int]bool{}
			for j := 0; j < nb; j++ {
				var a c13Alert
				id := -1
				if free := c13Unused(nIdent, used); len(free) > 0 && c13P(t, 85, "pool") {
					// one label set at most once per request (Exec excludes repeats)
					id = rapid.SampledFrom(free).Draw(t, "ident")
					used[id] = true
					a.Labels = map[string]string{}
					for k, v := range idents[id] {
						a.Labels[k] = v
					}
				} else {
					a.Labels = genC13Identity(t, sc.Mode)
				}
				if c13P(t, 40, "ann") {
					a.Annotations = map[string]string{"summary": rapid.SampledFrom(c13Summary).Draw(t, "summary")}
					if c13P(t, 25, "ann2") {
						a.Annotations["description"] = rapid.SampledFrom([]string{"", "d", "line\nbreak"}).Draw(t, "description")
					}
				}
				// times
				switch s := rapid.IntRange(0, 99).Draw(t, "startKind"); {
				case s < 35: // omitted
				case s < 65:
					a.StartMs = p(now - 1000*int64(rapid.SampledFrom(c13PastS).Draw(t, "startPast")))
				case s < 80:
					if ls, ok := lastStart[id]; ok && id >= 0 {
						a.StartMs = p(ls) // the same startsAt again, like a rule evaluator does
					} else {
						a.StartMs = p(now - 1000*int64(rapid.SampledFrom(c13PastS).Draw(t, "startPast")))
					}
				case s < 92:
					a.StartMs = p(now + 1000*int64(rapid.SampledFrom(c13FutureS).Draw(t, "startFuture")))
				default:
					a.StartMs = p(now)
				}
				switch e := rapid.IntRange(0, 99).Draw(t, "endKind"); {
				case e < 45: // omitted
				case e < 75:
					a.EndMs = p(now + 1000*int64(rapid.SampledFrom(c13FutureS).Draw(t, "endFuture")))
				default:
					a.EndMs = p(now - 1000*int64(rapid.SampledFrom(c13PastS).Draw(t, "endPast")))
				}
				if a.StartMs == nil && a.EndMs != nil && *a.EndMs > now && c13P(t, 90, "giveStart") {
					// no start + future end is left open by statement/docs (excluded in Exec): keep it rare
					a.StartMs = p(now - 1000*int64(rapid.SampledFrom(c13PastS).Draw(t, "startPast")))
				}
				if a.StartMs != nil && a.EndMs != nil && *a.EndMs < *a.StartMs && c13P(t, 85, "swap") {
					a.StartMs, a.EndMs = a.EndMs, a.StartMs
				}
				if a.StartMs != nil && id >= 0 {
					lastStart[id] = *a.StartMs
				}
				// decorations / invalid shapes
				switch d := rapid.IntRange(0, 99).Draw(t, "shape"); {
				case d < 15: // an empty-valued label that has to be stripped
					a.Labels[rapid.SampledFrom([]string{"a", "b", "c", "d"}).Draw(t, "emptyName")] = ""
				case d < 19:
					a.Labels = map[string]string{}
				case d < 23: // only empty-valued labels: nothing is left after stripping
					a.Labels = map[string]string{rapid.SampledFrom([]string{"alertname", "a"}).Draw(t, "onlyEmpty"): ""}
				case d < 28: // invalid in every mode / in classic mode only
					a.Labels[rapid.SampledFrom([]string{"", "a-b", "世", "0a"}).Draw(t, "badName")] = "x"
				case d < 31:
					if a.Annotations == nil {
						a.Annotations = map[string]string{}
					}
					a.Annotations[rapid.SampledFrom([]string{"", "a-b"}).Draw(t, "badAnn")] = "v"
				case d < 35: // end before start
					s := now - 1000*int64(rapid.SampledFrom(c13PastS).Draw(t, "ebsStart"))
					a.StartMs = p(s)
					a.EndMs = p(s - 1000*int64(rapid.SampledFrom(c13PastS).Draw(t, "ebsEnd")))
				}
				op.Batch = append(op.Batch, a)
			}
			sc.Ops = append(sc.Ops, op)
		case k <= 8: // advance
			ms := 1000*int64(rapid.SampledFrom(c13AdvanceS).Draw(t, "advance")) + 1
			now += ms
			sc.Ops = append(sc.Ops, c13Op{Op: "advance", Ms: ms})
		default: // filtered read
			op := c13Op{Op: "get"}
			nm := rapid.IntRange(1, 2).Draw(t, "nMatchers")
			for j := 0; j < nm; j++ {
				op.Filter = append(op.Filter, gen.UniMatcher().Draw(t, "matcher"))
			}
			sc.Ops = append(sc.Ops, op)
		}
	}
	return sc
}

// ------------------------------------------------------------------ executor

const c13ConfigYAML = `
global:
  resolve_timeout: %ds
route:
  receiver: r0
  routes:
  - matchers: ['a="x"']
    receiver: r1
    continue: true
  - matchers: ['b=~"y|z"']
    receiver: r0
receivers:
- name: r0
- name: r1
`

// c13RefReceivers is the reference routing for the fixed tree above (A.5):
// children in order; the first child continues, the second stops; the root
// only when no child matched.
func c13RefReceivers(ls map[string]string) []string {
	var out []string
	if ls["a"] == "x" {
		out = append(out, "r1")
	}
	if ls["b"] == "y" || ls["b"] == "z" {
		out = append(out, "r0")
	}
	if len(out) == 0 {
		out = []string{"r0"}
	}
	return out
}

type c13GotAlert struct {
	Labels      map[string]string `json:"labels"`
	Annotations map[string]string `json:"annotations"`
	StartsAt    time.Time         `json:"startsAt"`
	EndsAt      time.Time         `json:"endsAt"`
	UpdatedAt   time.Time         `json:"updatedAt"`
	Fingerprint string            `json:"fingerprint"`
	Receivers   []struct {
		Name string `json:"name"`
	} `json:"receivers"`
	Status struct {
		State       string   `json:"state"`
		SilencedBy  []string `json:"silencedBy"`
		InhibitedBy []string `json:"inhibitedBy"`
	} `json:"status"`
}

func c13SetMode(mode string) error {
	var ff featurecontrol.Flagger = featurecontrol.NoopFlags{}
	var err error
	switch mode {
	case "classic":
		ff, err = featurecontrol.NewFlags(nopLog, featurecontrol.FeatureClassicMode)
	case "utf8":
		ff, err = featurecontrol.NewFlags(nopLog, featurecontrol.FeatureUTF8StrictMode)
	}
	if err != nil {
		return err
	}
	compat.InitFromFlags(nopLog, ff)
	return nil
}

func c13SameMap(a, b map[string]string) bool {
	if len(a) != len(b) {
		return false
	}
	for k, v := range a {
		if w, ok := b[k]; !ok || v != w {
			return false
		}
	}
	return true
}

// c13Harness holds the running system of one case.
type c13Harness struct {
	res     *pbt.Result
	epoch   time.Time
	handler http.Handler
	alerts  *mem.Alerts
	model   *ref.C13AlertStore
	step    int
}

func (h *c13Harness) rel(t time.Time) string {
	return fmt.Sprintf("%+.3fs", t.Sub(h.epoch).Seconds())
}

func (h *c13Harness) violate(kind, format string, args ...any) {
	h.res.Add(pbt.V(kind, "step %d at %s: %s", h.step, h.rel(time.Now()), fmt.Sprintf(format, args...)).With("step", h.step))
}

func (h *c13Harness) do(method, target string, body []byte) *httptest.ResponseRecorder {
	req := httptest.NewRequest(method, target, bytes.NewReader(body))
	if body != nil {
		req.Header.Set("Content-Type", "application/json")
	}
	w := httptest.NewRecorder()
	h.handler.ServeHTTP(w, req)
	return w
}

// get performs GET /api/v2/alerts with all state flags on and compares the
// answer with the model's visible alerts that satisfy the filter.
func (h *c13Harness) get(filter []ref.Matcher) {
	now := time.Now()
	q := url.Values{"active": {"true"}, "silenced": {"true"}, "inhibited": {"true"}, "unprocessed": {"true"}}
	if len(filter) > 0 {
		ms, err := toLabelsMatchers(filter)
		if err != nil {
			h.violate("generator", "%v", err)
			return
		}
		for _, m := range ms {
			q.Add("filter", m.String())
		}
	}
	w := h.do("GET", "/api/v2/alerts?"+q.Encode(), nil)
	if w.Code != 200 {
		h.violate("get-status", "GET %s answered %d: %s", q.Encode(), w.Code, strings.TrimSpace(w.Body.String()))
		return
	}
	var got []c13GotAlert
	if err := json.Unmarshal(w.Body.Bytes(), &got); err != nil {
		h.violate("get-body", "GET body does not decode: %v: %s", err, w.Body.String())
		return
	}
	gotBy := map[string]c13GotAlert{}
	for _, g := range got {
		k := ref.C13LabelKey(g.Labels)
		if _, dup := gotBy[k]; dup {
			h.violate("get-duplicate", "label set %v returned twice", g.Labels)
		}
		gotBy[k] = g
	}
	want := map[string]ref.C13Stored{}
	for _, a := range h.model.Visible(now) {
		if ref.MatchAll(filter, a.Labels) {
			want[ref.C13LabelKey(a.Labels)] = a
		}
	}
	kindSuffix := ""
	if len(filter) > 0 {
		kindSuffix = "-filtered"
	}
	for k, a := range want {
		g, ok := gotBy[k]
		if !ok {
			stored, _ := h.model.Get(a.Labels)
			h.violate("get-missing"+kindSuffix, "alert %v (model: start %s end %s) is not returned (filter %v)", a.Labels, h.rel(stored.Start), h.rel(stored.End), filter)
			continue
		}
		if !g.StartsAt.Equal(a.Start.Truncate(time.Millisecond)) { // the API shows milliseconds
			h.violate("startsAt", "alert %v: startsAt %s, model %s", a.Labels, h.rel(g.StartsAt), h.rel(a.Start))
		}
		if !g.EndsAt.Equal(a.End.Truncate(time.Millisecond)) {
			h.violate("endsAt", "alert %v: endsAt %s, model %s (timeout=%v)", a.Labels, h.rel(g.EndsAt), h.rel(a.End), a.Timeout)
		}
		if !g.UpdatedAt.Equal(a.Updated.Truncate(time.Millisecond)) {
			h.violate("updatedAt", "alert %v: updatedAt %s, model %s", a.Labels, h.rel(g.UpdatedAt), h.rel(a.Updated))
		}
		if !c13SameMap(g.Annotations, a.Annotations) {
			h.violate("annotations", "alert %v: annotations %v, newest submission had %v", a.Labels, g.Annotations, a.Annotations)
		}
		var rcv []string
		for _, r := range g.Receivers {
			rcv = append(rcv, r.Name)
		}
		if wantRcv := c13RefReceivers(a.Labels); strings.Join(rcv, ",") != strings.Join(wantRcv, ",") {
			h.violate("receivers", "alert %v: receivers %v, reference routing %v", a.Labels, rcv, wantRcv)
		}
		if g.Status.State != "active" || len(g.Status.SilencedBy) != 0 || len(g.Status.InhibitedBy) != 0 {
			h.violate("status", "alert %v: status %+v although nothing silences or inhibits", a.Labels, g.Status)
		}
	}
	for k, g := range gotBy {
		if _, ok := want[k]; !ok {
			why := "not in the model's store"
			if st, ok := h.model.Get(g.Labels); ok {
				why = fmt.Sprintf("model: start %s end %s", h.rel(st.Start), h.rel(st.End))
				if !ref.MatchAll(filter, g.Labels) {
					why += ", does not satisfy the filter"
				}
			}
			h.violate("get-unexpected"+kindSuffix, "alert %v (startsAt %s endsAt %s) is returned (filter %v) but %s", g.Labels, h.rel(g.StartsAt), h.rel(g.EndsAt), filter, why)
		}
	}
}

// store compares the provider's whole content (resolved, not yet collected
// alerts included) with the model: GC removes exactly the alerts whose end has
// passed, at its ticker instants, and nothing else disappears.
func (h *c13Harness) store() {
	it := h.alerts.GetPending()
	got := map[string]*alert.Alert{}
	for a := range it.Next() {
		ls := map[string]string{}
		for k, v := range a.Data.Labels {
			ls[string(k)] = string(v)
		}
		got[ref.C13LabelKey(ls)] = a.Data
	}
	it.Close()
	for k, m := range h.model.Alerts {
		g, ok := got[k]
		if !ok {
			kind := "store-lost-resolved"
			if m.End.After(time.Now()) {
				kind = "store-lost-firing"
			}
			h.violate(kind, "alert %v (model: start %s end %s) is not in the provider", m.Labels, h.rel(m.Start), h.rel(m.End))
			continue
		}
		if !g.StartsAt.Equal(m.Start) || !g.EndsAt.Equal(m.End) {
			h.violate("store-times", "alert %v: provider holds [%s, %s], model [%s, %s]", m.Labels, h.rel(g.StartsAt), h.rel(g.EndsAt), h.rel(m.Start), h.rel(m.End))
		}
	}
	for k, g := range got {
		if _, ok := h.model.Alerts[k]; !ok {
			h.violate("store-extra", "provider holds %v [%s, %s] which the model does not (never stored, or collected at a GC tick)", g.Labels, h.rel(g.StartsAt), h.rel(g.EndsAt))
		}
	}
}

func execC13(sc c13Scenario) (res pbt.Result) {
	if sc.ResolveTimeoutS <= 0 || sc.GCIntervalS <= 0 {
		res.Fail("generator", "bad scenario parameters")
		return res
	}
	classes := map[string]bool{}
	var merges, gcRemoved, expiries int
	bubble(func() {
		defer func() {
			if r := recover(); r != nil {
				res.Add(pbt.V("panic", "panic on the request path: %v", r))
			}
		}()
		if err := c13SetMode(sc.Mode); err != nil {
			res.Fail("generator", "mode %q: %v", sc.Mode, err)
			return
		}
		defer c13SetMode("classic") // the process default
		time.Sleep(time.Duration(sc.PhaseNs))
		epoch := time.Now()
		reg := prometheus.NewRegistry()
		rec := eventrecorder.NopRecorder()
		sils, err := silence.New(silence.Options{Metrics: reg, Retention: time.Hour, Logger: nopLog})
		if err != nil {
			res.Fail("setup", "silence.New: %v", err)
			return
		}
		silencer := silence.NewSilencer(sils, nopLog, rec)
		ctx, cancel := context.WithCancel(context.Background())
		defer cancel()
		gcInterval := time.Duration(sc.GCIntervalS) * time.Second
		alerts, err := mem.NewAlerts(ctx, gcInterval, 0, silencer, nopLog, rec, reg, featurecontrol.NoopFlags{})
		if err != nil {
			res.Fail("setup", "mem.NewAlerts: %v", err)
			return
		}
		cfg, err := config.Load(fmt.Sprintf(c13ConfigYAML, sc.ResolveTimeoutS))
		if err != nil {
			res.Fail("setup", "config.Load: %v", err)
			return
		}
		inh := inhibit.NewInhibitor(alerts, cfg.InhibitRules, nopLog, rec)
		go inh.Run()
		inh.WaitForLoading()
		defer func() {
			inh.Stop()
			alerts.Close()
			cancel()
			synctest.Wait()
		}()
		groups := func(context.Context, func(*dispatch.Route) bool, func(*alert.Alert, time.Time) bool) (dispatch.AlertGroups, map[model.Fingerprint][]string, error) {
			return nil, nil, nil
		}
		api, err := apiv2.NewAPI(alerts, groups, func(string, string) ([]string, bool) { return nil, false }, sils, nil, nopLog, reg)
		if err != nil {
			res.Fail("setup", "NewAPI: %v", err)
			return
		}
		// as cmd/alertmanager wires it
		api.Update(cfg, func(ctx context.Context, ls model.LabelSet) {
			inh.Mutes(ctx, ls)
			silencer.Mutes(ctx, ls)
		})
		h := &c13Harness{
			res: &res, epoch: epoch, handler: api.Handler, alerts: alerts,
			model: ref.NewC13AlertStore(time.Duration(sc.ResolveTimeoutS)*time.Second, sc.Mode == "classic"),
		}
		at := func(ms int64) time.Time { return epoch.Add(time.Duration(ms) * time.Millisecond) }
		nowMs := int64(1)
		time.Sleep(time.Millisecond)
		for i, op := range sc.Ops {
			h.step = i
			switch op.Op {
			case "post":
				now := time.Now()
				var body []map[string]any
				var sent []ref.C13Alert
				wantOK, valid := true, 0
				inBatch := map[string]bool{}
				for _, a := range op.Batch {
					ra := ref.C13Alert{Labels: a.Labels, Annotations: a.Annotations}
					ja := map[string]any{"labels": a.Labels}
					if ja["labels"] == nil {
						ja["labels"] = map[string]string{}
					}
					if len(a.Annotations) > 0 {
						ja["annotations"] = a.Annotations
					}
					if a.StartMs != nil {
						ra.StartsAt = at(*a.StartMs)
						ja["startsAt"] = ra.StartsAt.UTC().Format(time.RFC3339Nano)
					}
					if a.EndMs != nil {
						ra.EndsAt = at(*a.EndMs)
						ja["endsAt"] = ra.EndsAt.UTC().Format(time.RFC3339Nano)
					}
					if a.EndMs != nil && *a.EndMs == nowMs {
						// end == receive instant: not decided (boundary), not sent
						res.Excluded++
						classes["excluded:end-equals-now"] = true
						continue
					}
					// Shapes the statement/docs leave open are not submitted.
					if amb := h.model.Peek(now, ra).Ambiguous; amb != "" {
						res.Excluded++
						classes["excluded:"+amb] = true
						continue
					}
					if pk := h.model.Peek(now, ra); pk.Kind != ref.C13Invalid && inBatch[pk.Key] {
						// the same label set twice in one request: equal update
						// instants, order not decided by the statement
						res.Excluded++
						classes["excluded:same-labels-twice-in-batch"] = true
						continue
					} else if pk.Kind != ref.C13Invalid {
						inBatch[pk.Key] = true
					}
					o := h.model.Post(now, ra)
					sent = append(sent, ra)
					body = append(body, ja)
					if o.Kind != ref.C13Invalid {
						valid++
					}
					switch o.Kind {
					case ref.C13Invalid:
						wantOK = false
						classes["invalid-in-batch"] = true
						classes["invalid:"+strings.SplitN(o.Reason, " ", 2)[0]] = true
					case ref.C13Merge:
						merges++
						classes["overlap-merge"] = true
						if o.OldResolved {
							classes["merge-with-resolved-uncollected"] = true
						}
						if o.PushedForward {
							classes["timeout-pushed-forward"] = true
						}
						if !o.Result.Start.Equal(ra.StartsAt) && !ra.StartsAt.IsZero() || ra.StartsAt.IsZero() && o.Result.Start.Before(now) {
							classes["merge-kept-earlier-start"] = true
						}
						if !o.Result.End.Equal(o.Previous.End) && o.Result.End.Before(o.Previous.End) {
							classes["merge-shortened-end"] = true
						}
					case ref.C13Replace:
						classes["disjoint-replace"] = true
					}
					if o.Kind != ref.C13Invalid {
						if o.PastEnd {
							classes["explicit-past-end"] = true
							if o.Kind != ref.C13New && o.Previous.End.After(now) {
								classes["past-end-resolves-firing"] = true
							}
						}
						if o.Stripped > 0 {
							classes["empty-label-stripped"] = true
						}
					}
				}
				if len(sent) == 0 {
					continue
				}
				if !wantOK && valid > 0 {
					classes["valid-beside-invalid"] = true
				}
				raw, _ := json.Marshal(body)
				w := h.do("POST", "/api/v2/alerts", raw)
				wantCode := 200
				if !wantOK {
					wantCode = 400
				}
				if w.Code != wantCode {
					h.violate("post-status", "POST %s answered %d (%s), want %d", raw, w.Code, strings.TrimSpace(w.Body.String()), wantCode)
				}
			case "advance":
				if op.Ms <= 0 {
					continue
				}
				before := len(h.model.Visible(time.Now()))
				gcMs := int64(sc.GCIntervalS) * 1000
				for tick := (nowMs/gcMs + 1) * gcMs; tick <= nowMs+op.Ms; tick += gcMs {
					if n := len(h.model.GC(at(tick))); n > 0 {
						gcRemoved += n
						classes["gc-removed"] = true
					}
					classes["gc-tick"] = true
				}
				nowMs += op.Ms
				time.Sleep(time.Duration(op.Ms) * time.Millisecond)
				synctest.Wait()
				if len(h.model.Visible(time.Now())) < before {
					expiries++
					classes["expiry"] = true
				}
			case "get":
				classes["filter-used"] = true
				h.get(op.Filter)
				continue
			default:
				res.Fail("generator", "unknown op %q", op.Op)
				return
			}
			h.get(nil)
			h.store()
		}
		synctest.Wait()
	})
	for c := range classes {
		res.Class(c)
	}
	sort.Strings(res.Classes)
	res.Class("mode:" + sc.Mode)
	res.NonTrivial = merges > 0 && (gcRemoved > 0 || expiries > 0)
	return res
}

func TestC13Ingest(t *testing.T) {
	pbt.Run(t, pbt.Spec[c13Scenario]{
		Property: "C13", Name: "C13Ingest",
		Rule: "histories of 3-12 (thorough: 3-30) operations over 1-3 recurring label sets (alertname + a,b,c x {x,y,z}; UTF-8 names outside classic mode): POST batches of 1-4 alerts (start/end omitted, past, future, repeated; empty-valued labels; annotations incl. empty values; invalid: no labels, only empty labels, bad label/annotation names for the active mode, end before start), virtual-time advances of 0-2000 s (+1 ms, across GC ticks of 1/5/30 min and across ends), filtered GETs; resolve_timeout 30 s/2 m/5 m; parser mode fallback/classic/utf8. After every step GET (all state flags on) and the provider's content are compared with ref.C13AlertStore. Submissions whose outcome statement and docs leave open (no start + future end, ranges that only touch, no end against a later explicit end, end == receive instant) are not sent and counted as excluded. Non-trivial: the history contains a re-submission of a stored label set with an overlapping range AND a GC removal or an alert expiring between steps.",
		Gen:  genC13, Exec: execC13,
	})
}
