package checks

import (
	"bytes"
	"context"
	"encoding/json"
	"fmt"
	"io"
	"maps"
	"net/http"
	"net/http/httptest"
	"net/url"
	"slices"
	"strings"
	"sync"
	"testing"
	"time"

	commoncfg "github.com/prometheus/common/config"
	"github.com/prometheus/common/model"
	"pgregory.net/rapid"

	amcommoncfg "github.com/prometheus/alertmanager/config/common"
	"github.com/prometheus/alertmanager/notify"
	"github.com/prometheus/alertmanager/notify/webhook"
	"github.com/prometheus/alertmanager/template"
	"github.com/prometheus/alertmanager/types"

	"verif/harness/pbt"
	"verif/harness/ref"
)

// ------------------------------------------------------------ template.Data

type c20PAlert struct {
	Labels      map[string]string `json:"labels"`
	Annotations map[string]string `json:"annotations"`
	Resolved    bool              `json:"resolved"`
	StartMin    int               `json:"start_min"` // StartsAt = base - StartMin minutes
	EndMin      int               `json:"end_min"`   // resolved: EndsAt = now - 24h - EndMin minutes; firing: 0 => zero EndsAt, else now + 24h + EndMin minutes
	GenURL      string            `json:"generator_url"`
	// Timeout: the end time was derived from resolve_timeout (the alert was submitted without one): the API marks such
	// alerts, the payload treats them like any other
	Timeout bool `json:"timeout,omitempty"`
}

type c20PayloadScenario struct {
	Receiver    string            `json:"receiver"`
	Reason      string            `json:"reason"`
	GroupLabels map[string]string `json:"group_labels"`
	RouteLabels map[string]string `json:"route_labels"`
	Alerts      []c20PAlert       `json:"alerts"`
}

var (
	c20LabelNames = []string{"alertname", "job", "instance", "severity", "团队", "with space"}
	// no empty label values: ingestion strips them (api/v2 removeEmptyLabels)
	c20LabelVals = []string{"a", "b", "x y", "世界", "v1"}
	// annotations may be empty; an empty annotation is treated as equivalent to an absent one
	// when judging CommonAnnotations (the statement does not distinguish them)
	c20AnnoVals  = []string{"a", "b", "", "long text with spaces", "世界"}
	c20AnnoNames = []string{"summary", "description", "runbook"}
	// receiver names: template.Data passes the name through regexp.QuoteMeta (long-standing
	// behaviour the statement is silent about), so regex metacharacters are not generated.
	c20RecvAlphabet = []rune("abcXYZ019_- /:@é世")
)

func genC20KV(t *rapid.T, names, vals []string, pPresent int, label string) map[string]string {
	m := map[string]string{}
	for _, n := range names {
		if rapid.IntRange(0, 9).Draw(t, label+"?") < pPresent {
			m[n] = rapid.SampledFrom(vals).Draw(t, label+"v")
		}
	}
	return m
}

func c20DropEmpty(m map[string]string) map[string]string {
	out := map[string]string{}
	for k, v := range m {
		if v != "" {
			out[k] = v
		}
	}
	return out
}

func genC20PAlerts(t *rapid.T, minN, maxN int) []c20PAlert {
	n := rapid.IntRange(minN, maxN).Draw(t, "nAlerts")
	// a shared base makes common labels likely; each alert then deviates a bit
	baseL := genC20KV(t, c20LabelNames, c20LabelVals, 7, "bl")
	baseA := genC20KV(t, c20AnnoNames, c20AnnoVals, 6, "ba")
	pResolved := rapid.SampledFrom([]int{0, 0, 3, 5, 10}).Draw(t, "pResolved")
	var out []c20PAlert
	for i := 0; i < n; i++ {
		a := c20PAlert{Labels: maps.Clone(baseL), Annotations: maps.Clone(baseA)}
		nmut := rapid.IntRange(0, 2).Draw(t, "nmut")
		for j := 0; j < nmut; j++ {
			k := rapid.SampledFrom(c20LabelNames).Draw(t, "mk")
			switch rapid.IntRange(0, 2).Draw(t, "mop") {
			case 0:
				delete(a.Labels, k)
			default:
				a.Labels[k] = rapid.SampledFrom(c20LabelVals).Draw(t, "mv")
			}
			ak := rapid.SampledFrom(c20AnnoNames).Draw(t, "mak")
			switch rapid.IntRange(0, 3).Draw(t, "maop") {
			case 0:
				delete(a.Annotations, ak)
			case 1:
				a.Annotations[ak] = rapid.SampledFrom(c20AnnoVals).Draw(t, "mav")
			}
		}
		a.Labels["id"] = fmt.Sprintf("%d", i) // distinct alerts (a group never holds two alerts with the same label set)
		a.Resolved = rapid.IntRange(0, 9).Draw(t, "res") < pResolved
		a.StartMin = rapid.IntRange(24*60+1, 24*60+600).Draw(t, "start")
		a.EndMin = rapid.IntRange(0, 300).Draw(t, "end")
		a.Timeout = rapid.IntRange(0, 2).Draw(t, "timeoutEnd") == 0
		a.GenURL = rapid.SampledFrom([]string{"", "http://prom/graph?g0.expr=up", "http://x/世"}).Draw(t, "gen")
		out = append(out, a)
	}
	return out
}

func genC20Payload(t *rapid.T) c20PayloadScenario {
	return c20PayloadScenario{
		Receiver:    rapid.StringOfN(rapid.SampledFrom(c20RecvAlphabet), 1, 10, -1).Draw(t, "recv"),
		Reason:      rapid.SampledFrom([]string{"first notification", "new alerts added", "all alerts resolved", "unknown"}).Draw(t, "reason"),
		GroupLabels: genC20KV(t, c20LabelNames, c20LabelVals, 3, "gl"),
		RouteLabels: genC20KV(t, []string{"team", "tier"}, c20LabelVals, 4, "rl"),
		Alerts:      genC20PAlerts(t, 1, c20Scale(7, 20)),
	}
}

func c20BuildAlerts(as []c20PAlert, now time.Time) []*types.Alert {
	var out []*types.Alert
	for _, a := range as {
		al := &types.Alert{
			Alert: model.Alert{
				Labels:       toLabelSet(a.Labels),
				Annotations:  toLabelSet(a.Annotations),
				StartsAt:     now.Add(-time.Duration(a.StartMin) * time.Minute),
				GeneratorURL: a.GenURL,
			},
			UpdatedAt: now,
			Timeout:   a.Timeout,
		}
		switch {
		case a.Resolved:
			al.EndsAt = now.Add(-24*time.Hour - time.Duration(a.EndMin)*time.Minute)
			if !al.EndsAt.After(al.StartsAt) {
				al.StartsAt = al.EndsAt.Add(-time.Minute)
			}
		case a.EndMin > 0:
			al.EndsAt = now.Add(24*time.Hour + time.Duration(a.EndMin)*time.Minute)
		}
		out = append(out, al)
	}
	return out
}

// c20Tmpl parses the default templates once per process: a *template.Template is
// read-only after construction (parsing costs ~2 ms, the judged call a few µs).
var c20Tmpl = sync.OnceValues(func() (*template.Template, error) {
	tmpl, err := template.FromGlobs([]string{})
	if err != nil {
		return nil, err
	}
	tmpl.ExternalURL, _ = url.Parse("http://am.example:9093/prefix")
	return tmpl, nil
})

func c20KVEq(got template.KV, want map[string]string) bool {
	return maps.Equal(map[string]string(got), want)
}

// c20JudgeData compares a template.Data with what the statement / docs/notifications.md
// require for the listed alerts. where prefixes violation kinds.
func c20JudgeData(where string, d *template.Data, listed []c20PAlert, built []*types.Alert, recv string, gl, rl map[string]string) (vs []pbt.Violation) {
	add := func(kind, f string, a ...any) {
		vs = append(vs, pbt.V(where+kind, f, a...))
	}
	if len(d.Alerts) != len(listed) {
		add("alert-count", "data lists %d alerts, batch has %d", len(d.Alerts), len(listed))
		return vs
	}
	var lms, ams []map[string]string
	var firing []bool
	for i, a := range listed {
		lms = append(lms, a.Labels)
		ams = append(ams, a.Annotations)
		firing = append(firing, !a.Resolved)
		g := d.Alerts[i]
		wantStatus := "firing"
		if a.Resolved {
			wantStatus = "resolved"
		}
		if g.Status != wantStatus {
			add("alert-status", "alert %d status %q want %q", i, g.Status, wantStatus)
		}
		if !c20KVEq(g.Labels, a.Labels) {
			add("alert-labels", "alert %d labels %v want %v", i, g.Labels, a.Labels)
		}
		if !c20KVEq(g.Annotations, a.Annotations) {
			add("alert-annotations", "alert %d annotations %v want %v", i, g.Annotations, a.Annotations)
		}
		if !g.StartsAt.Equal(built[i].StartsAt) {
			add("alert-startsAt", "alert %d startsAt %v want %v", i, g.StartsAt, built[i].StartsAt)
		}
		// EndsAt of a firing alert is left free (docs: "only set if the end time is known")
		if a.Resolved && !g.EndsAt.Equal(built[i].EndsAt) {
			add("alert-endsAt", "resolved alert %d endsAt %v want %v", i, g.EndsAt, built[i].EndsAt)
		}
		if g.GeneratorURL != a.GenURL {
			add("alert-generatorURL", "alert %d generatorURL %q want %q", i, g.GeneratorURL, a.GenURL)
		}
		if want := toLabelSet(a.Labels).Fingerprint().String(); g.Fingerprint != want {
			add("alert-fingerprint", "alert %d fingerprint %q want %q", i, g.Fingerprint, want)
		}
	}
	if want := ref.C20Status(firing); d.Status != want {
		add("status", "status %q want %q (firing flags %v)", d.Status, want, firing)
	}
	if want := ref.C20Common(lms); !c20KVEq(d.CommonLabels, want) {
		add("common-labels", "commonLabels %v want intersection %v", d.CommonLabels, want)
	}
	if want := c20DropEmpty(ref.C20Common(ams)); !maps.Equal(c20DropEmpty(d.CommonAnnotations), want) {
		add("common-annotations", "commonAnnotations %v want intersection %v", d.CommonAnnotations, want)
	}
	if !c20KVEq(d.GroupLabels, gl) {
		add("group-labels", "groupLabels %v want %v", d.GroupLabels, gl)
	}
	if rl != nil && !c20KVEq(d.RouteLabels, rl) {
		add("route-labels", "routeLabels %v want %v", d.RouteLabels, rl)
	}
	if d.Receiver != recv {
		add("receiver", "receiver %q want %q", d.Receiver, recv)
	}
	return vs
}

func execC20Payload(sc c20PayloadScenario) (res pbt.Result) {
	tmpl, err := c20Tmpl()
	if err != nil {
		res.Fail("harness", "template.FromGlobs: %v", err)
		return res
	}
	now := time.Now()
	built := c20BuildAlerts(sc.Alerts, now)
	// a deep copy to detect mutation of the shared batch (sibling integrations share the slice)
	before := c20BuildAlerts(sc.Alerts, now)
	d := tmpl.Data(sc.Receiver, toLabelSet(sc.GroupLabels), toLabelSet(sc.RouteLabels), sc.Reason, built...)
	res.Add(c20JudgeData("data-", d, sc.Alerts, built, sc.Receiver, sc.GroupLabels, sc.RouteLabels)...)
	if d.ExternalURL != "http://am.example:9093/prefix" {
		res.Fail("data-external-url", "externalURL %q", d.ExternalURL)
	}
	if d.NotificationReason != sc.Reason {
		res.Fail("data-reason", "notification_reason %q want %q", d.NotificationReason, sc.Reason)
	}
	for i := range built {
		if !built[i].Labels.Equal(before[i].Labels) || !built[i].Annotations.Equal(before[i].Annotations) || !built[i].EndsAt.Equal(before[i].EndsAt) {
			res.Fail("data-mutates-batch", "alert %d of the batch was modified by Template.Data", i)
		}
	}
	// Firing()/Resolved() partition the list, preserving order
	f, r := d.Alerts.Firing(), d.Alerts.Resolved()
	if len(f)+len(r) != len(d.Alerts) {
		res.Fail("data-partition", "Firing()=%d + Resolved()=%d != %d", len(f), len(r), len(d.Alerts))
	} else {
		fi, ri := 0, 0
		for i, a := range d.Alerts {
			switch {
			case a.Status == "firing" && fi < len(f) && f[fi].Fingerprint == a.Fingerprint && f[fi].Status == "firing":
				fi++
			case a.Status == "resolved" && ri < len(r) && r[ri].Fingerprint == a.Fingerprint && r[ri].Status == "resolved":
				ri++
			default:
				res.Fail("data-partition", "alert %d (%s) is not the next element of Firing()/Resolved()", i, a.Status)
			}
		}
	}
	nFiring := 0
	for _, a := range sc.Alerts {
		if !a.Resolved {
			nFiring++
		}
	}
	common := len(ref.C20Common(c20Labels(sc.Alerts)))
	res.NonTrivial = len(sc.Alerts) >= 2
	switch {
	case nFiring == 0:
		res.Class("all-resolved")
	case nFiring == len(sc.Alerts):
		res.Class("all-firing")
	default:
		res.Class("mixed-status")
	}
	if len(sc.Alerts) >= 2 {
		switch {
		case common == 0:
			res.Class("common-labels:none")
		case common < c20MinLabels(sc.Alerts)-1: // every alert has its own "id" label
			res.Class("common-labels:some")
		default:
			res.Class("common-labels:all-but-id")
		}
	}
	return res
}

func c20Labels(as []c20PAlert) (out []map[string]string) {
	for _, a := range as {
		out = append(out, a.Labels)
	}
	return out
}

func c20MinLabels(as []c20PAlert) int {
	m := len(as[0].Labels)
	for _, a := range as {
		m = min(m, len(a.Labels))
	}
	return m
}

func TestC20Payload(t *testing.T) {
	pbt.Run(t, pbt.Spec[c20PayloadScenario]{
		Property: "C20", Name: "C20Payload",
		Rule: "batches of 1-7 (thorough: 1-20) distinct alerts derived from a shared base label/annotation set with 0-2 per-alert deviations (so common labels are frequent but partial), firing/resolved mix (resolved = EndsAt a day in the past, firing = zero or far-future EndsAt), group/route labels, receiver names without regex metacharacters; Template.Data judged against docs/notifications.md: |Alerts| = |batch| in order with faithful fields, status firing iff any fires, CommonLabels/CommonAnnotations = intersection, GroupLabels/RouteLabels/Receiver/ExternalURL faithful, Firing()/Resolved() order-preserving partition, batch not mutated. Non-trivial: batch has >= 2 alerts.",
		Gen:  genC20Payload, Exec: execC20Payload,
	})
}

// ------------------------------------------------------------------ webhook

type c20WebhookScenario struct {
	Receiver    string            `json:"receiver"`
	GroupKey    string            `json:"group_key"`
	GroupLabels map[string]string `json:"group_labels"`
	Alerts      []c20PAlert       `json:"alerts"`
	MaxAlerts   int               `json:"max_alerts"`
	Status      int               `json:"status"` // HTTP status the endpoint answers with
	// TimeoutMs: the receiver's `timeout` option (0: not set). DelayMs: how long the endpoint takes to answer.
	// Generated either as (5000, 0): never hit, or (30, 150): every request runs into the per-request timeout.
	TimeoutMs int `json:"timeout_ms,omitempty"`
	DelayMs   int `json:"delay_ms,omitempty"`
}

var c20HTTPStatuses = []int{200, 200, 200, 201, 204, 400, 404, 429, 500, 503}

func genC20Webhook(t *rapid.T) c20WebhookScenario {
	as := genC20PAlerts(t, 1, c20Scale(8, 20))
	var maxA int
	switch rapid.IntRange(0, 3).Draw(t, "maxClass") {
	case 0:
		maxA = 0
	case 1:
		maxA = rapid.IntRange(1, len(as)).Draw(t, "max") // truncates unless == len
	case 2:
		maxA = len(as) + rapid.IntRange(-1, 1).Draw(t, "dmax") // boundary
	default:
		maxA = rapid.IntRange(1, len(as)+3).Draw(t, "max")
	}
	if maxA < 0 {
		maxA = 0
	}
	tmo, delay := 0, 0
	switch rapid.IntRange(0, 5).Draw(t, "timeoutClass") {
	case 0:
		tmo = 5000
	case 1:
		tmo, delay = 30, 150
	}
	return c20WebhookScenario{
		TimeoutMs: tmo, DelayMs: delay,
		Receiver:    rapid.StringOfN(rapid.SampledFrom(c20RecvAlphabet), 1, 10, -1).Draw(t, "recv"),
		GroupKey:    rapid.SampledFrom([]string{`{}:{alertname="a"}`, `{}/{job="x"}:{job="x", 团队="世界"}`, "{}:{}", "k\n\"quoted\""}).Draw(t, "gk"),
		GroupLabels: genC20KV(t, c20LabelNames, c20LabelVals, 3, "gl"),
		Alerts:      as,
		MaxAlerts:   maxA,
		Status:      rapid.SampledFrom(c20HTTPStatuses).Draw(t, "status"),
	}
}

type c20WebhookMsg struct {
	template.Data
	Version         string `json:"version"`
	GroupKey        string `json:"groupKey"`
	TruncatedAlerts *int   `json:"truncatedAlerts"`
}

func execC20Webhook(sc c20WebhookScenario) (res pbt.Result) {
	tmpl, err := c20Tmpl()
	if err != nil {
		res.Fail("harness", "template.FromGlobs: %v", err)
		return res
	}
	var bodies [][]byte
	var ctype string
	srv := httptest.NewServer(http.HandlerFunc(func(w http.ResponseWriter, r *http.Request) {
		b, _ := io.ReadAll(r.Body)
		bodies = append(bodies, b)
		ctype = r.Header.Get("Content-Type")
		if sc.DelayMs > 0 {
			time.Sleep(time.Duration(sc.DelayMs) * time.Millisecond)
		}
		w.WriteHeader(sc.Status)
		io.WriteString(w, "answer")
	}))
	n, err := webhook.New(&webhook.WebhookConfig{
		URL:        amcommoncfg.SecretTemplateURL(srv.URL),
		HTTPConfig: &commoncfg.HTTPClientConfig{},
		MaxAlerts:  uint64(sc.MaxAlerts),
		Timeout:    time.Duration(sc.TimeoutMs) * time.Millisecond,
	}, tmpl, nopLog, commoncfg.WithKeepAlivesDisabled())
	if err != nil {
		srv.Close()
		res.Fail("harness", "webhook.New: %v", err)
		return res
	}
	now := time.Now()
	built := c20BuildAlerts(sc.Alerts, now)
	ctx, cancel := context.WithTimeout(context.Background(), 30*time.Second)
	ctx = notify.WithGroupKey(ctx, sc.GroupKey)
	ctx = notify.WithReceiverName(ctx, sc.Receiver)
	ctx = notify.WithGroupLabels(ctx, toLabelSet(sc.GroupLabels))
	ctx = notify.WithNotificationReason(ctx, notify.ReasonFirstNotification)
	// what the dedup stage of the real pipeline leaves in the context: the hashes of the WHOLE batch's firing and
	// resolved alerts (the body's status must still follow the alerts it lists, i.e. the first max_alerts)
	var fh, rh []uint64
	for i, a := range built {
		if a.Resolved() {
			rh = append(rh, uint64(1000+i))
		} else {
			fh = append(fh, uint64(1000+i))
		}
	}
	ctx = notify.WithFiringAlerts(ctx, fh)
	ctx = notify.WithResolvedAlerts(ctx, rh)
	retry, nerr := n.Notify(ctx, built...)
	timedOut := ctx.Err() != nil
	cancel()
	srv.Close() // waits for the handler; bodies/ctype are safe to read afterwards

	if len(bodies) != 1 || timedOut {
		// a transport problem of the loopback server is not a verdict about the property
		res.Class("no-request")
		return res
	}
	// delivery verdict
	switch {
	case sc.DelayMs > sc.TimeoutMs && sc.TimeoutMs > 0:
		// "timeout: the maximum time to wait for a webhook request to complete, before failing the request and
		// allowing it to be retried" (docs/configuration.md): the flush deadline is 30 s away
		res.Class("per-request-timeout-hit")
		if nerr == nil || !retry {
			res.Fail("webhook-timeout-not-retried", "the endpoint took %d ms, the receiver's timeout is %d ms and the flush deadline is far: retry=%v err=%v (want a recoverable error)", sc.DelayMs, sc.TimeoutMs, retry, nerr)
		}
		return res
	case sc.Status/100 == 2:
		if nerr != nil {
			res.Fail("webhook-2xx-error", "endpoint answered %d but Notify returned %v", sc.Status, nerr)
		}
	case sc.Status/100 == 5:
		if nerr == nil || !retry {
			res.Fail("webhook-5xx-not-retried", "endpoint answered %d: retry=%v err=%v", sc.Status, retry, nerr)
		}
	default:
		if nerr == nil || retry {
			res.Fail("webhook-4xx", "endpoint answered %d: retry=%v err=%v (want unrecoverable error)", sc.Status, retry, nerr)
		}
	}
	if ctype != "application/json" {
		res.Fail("webhook-content-type", "content type %q", ctype)
	}
	var msg c20WebhookMsg
	dec := json.NewDecoder(bytes.NewReader(bodies[0]))
	if err := dec.Decode(&msg); err != nil {
		res.Fail("webhook-json", "body is not JSON: %v: %q", err, bodies[0])
		return res
	}
	wantListed := len(sc.Alerts)
	if sc.MaxAlerts > 0 && sc.MaxAlerts < wantListed {
		wantListed = sc.MaxAlerts
	}
	if len(msg.Alerts) != wantListed {
		res.Add(pbt.V("webhook-listed", "body lists %d alerts; batch %d, max_alerts %d => want %d", len(msg.Alerts), len(sc.Alerts), sc.MaxAlerts, wantListed).
			With("listed", len(msg.Alerts)).With("want", wantListed))
	} else {
		res.Add(c20JudgeData("webhook-", &msg.Data, sc.Alerts[:wantListed], built[:wantListed], sc.Receiver, sc.GroupLabels, nil)...)
	}
	if msg.TruncatedAlerts == nil {
		res.Fail("webhook-truncated-missing", "truncatedAlerts missing in body")
	} else if *msg.TruncatedAlerts != len(sc.Alerts)-wantListed {
		res.Add(pbt.V("webhook-truncated-count", "truncatedAlerts=%d; batch %d, listed %d => want %d", *msg.TruncatedAlerts, len(sc.Alerts), wantListed, len(sc.Alerts)-wantListed))
	}
	if msg.GroupKey != sc.GroupKey {
		res.Fail("webhook-groupkey", "groupKey %q want %q", msg.GroupKey, sc.GroupKey)
	}
	if msg.Version != "4" {
		res.Fail("webhook-version", "version %q want \"4\" (docs/configuration.md)", msg.Version)
	}
	trunc := wantListed < len(sc.Alerts)
	res.NonTrivial = true
	switch {
	case sc.MaxAlerts == 0:
		res.Class("max_alerts=0")
	case trunc:
		res.Class("truncated")
	case sc.MaxAlerts == len(sc.Alerts):
		res.Class("max_alerts=len")
	default:
		res.Class("max_alerts>len")
	}
	res.Class(fmt.Sprintf("http-%dxx", sc.Status/100))
	return res
}

func TestC20Webhook(t *testing.T) {
	pbt.Run(t, pbt.Spec[c20WebhookScenario]{
		Property: "C20", Name: "C20Webhook",
		Rule: "notify/webhook.Notifier posting to a loopback httptest.Server (real time, one fresh server and notifier per case): batches of 1-8 (thorough: 1-20) alerts, max_alerts in {0, 1..len, len-1..len+1, up to len+3}, endpoint answers 2xx/4xx/5xx; one case in six sets the receiver's timeout option to 30 ms against an endpoint that answers after 150 ms (must be a recoverable error), one in six sets it to 5 s (never hit). The JSON body must list exactly the first max_alerts alerts (all when 0) in order with faithful fields, truncatedAlerts = the rest, status/common labels computed over the listed alerts, groupKey/receiver/version faithful; 2xx => nil error, 5xx => recoverable error, 4xx => unrecoverable error. Non-trivial: the request reached the server.",
		Gen:  genC20Webhook, Exec: execC20Webhook,
	})
}

// ------------------------------------------------------------ Retrier.Check

type c20RetrierScenario struct {
	Code       int    `json:"code"`
	RetryCodes []int  `json:"retry_codes"`
	Body       []byte `json:"body"`
	NilBody    bool   `json:"nil_body"`
	Details    bool   `json:"custom_details"`
}

func genC20Retrier(t *rapid.T) c20RetrierScenario {
	sc := c20RetrierScenario{
		RetryCodes: rapid.SliceOfN(rapid.SampledFrom([]int{408, 425, 429, 404, 400, 302, 100, 502}), 0, 3).Draw(t, "retryCodes"),
		Body:       rapid.SliceOfN(rapid.Byte(), 0, 12).Draw(t, "body"),
		NilBody:    rapid.Bool().Draw(t, "nilBody"),
		Details:    rapid.Bool().Draw(t, "details"),
	}
	if len(sc.RetryCodes) > 0 && rapid.IntRange(0, 2).Draw(t, "listed") == 0 {
		sc.Code = rapid.SampledFrom(sc.RetryCodes).Draw(t, "code")
	} else if rapid.Bool().Draw(t, "boundary") {
		sc.Code = rapid.SampledFrom([]int{100, 199, 200, 201, 204, 299, 300, 301, 399, 400, 401, 403, 404, 429, 499, 500, 501, 502, 503, 504, 599}).Draw(t, "code")
	} else {
		sc.Code = rapid.IntRange(100, 599).Draw(t, "code")
	}
	return sc
}

func execC20Retrier(sc c20RetrierScenario) (res pbt.Result) {
	r := &notify.Retrier{RetryCodes: sc.RetryCodes}
	if sc.Details {
		r.CustomDetailsFunc = func(int, io.Reader) string { return "details" }
	}
	var body io.Reader
	if !sc.NilBody {
		body = bytes.NewReader(sc.Body)
	}
	retry, err := r.Check(sc.Code, body)
	listed := slices.Contains(sc.RetryCodes, sc.Code)
	switch {
	case sc.Code/100 == 2:
		if err != nil || retry {
			res.Fail("retrier-2xx", "Check(%d) = %v, %v; want false, nil", sc.Code, retry, err)
		}
		res.Class("2xx")
	case sc.Code/100 == 5:
		if err == nil || !retry {
			res.Fail("retrier-5xx", "Check(%d) = %v, %v; want true, error", sc.Code, retry, err)
		}
		res.Class("5xx")
	case listed:
		if err == nil || !retry {
			res.Fail("retrier-listed", "Check(%d) with RetryCodes %v = %v, %v; want true, error", sc.Code, sc.RetryCodes, retry, err)
		}
		res.Class("listed-retry-code")
	default:
		if err == nil || retry {
			res.Fail("retrier-other", "Check(%d) with RetryCodes %v = %v, %v; want false, error", sc.Code, sc.RetryCodes, retry, err)
		}
		res.Class("other")
	}
	res.NonTrivial = sc.Code/100 != 2
	return res
}

func TestC20RetrierCheck(t *testing.T) {
	pbt.Run(t, pbt.Spec[c20RetrierScenario]{
		Property: "C20", Name: "C20RetrierCheck",
		Rule: "notify.Retrier.Check on status codes 100-599 (biased to the configured RetryCodes), 0-3 RetryCodes, nil / arbitrary bodies, with and without CustomDetailsFunc: 2xx => (false, nil); 5xx or listed => (true, error); anything else => (false, error). Non-trivial: code is not 2xx.",
		Gen:  genC20Retrier, Exec: execC20Retrier,
	})
}

// C05Payload: "the next flush lists it as resolved" is a statement about what the receiver is handed: the C20Payload
// and C20Webhook cases judged only for the per-alert status and end time of the listed alerts and the overall status
// (an alert whose end has passed, whether that end was submitted or derived from resolve_timeout, is listed as
// resolved with that end).
func c05PayloadKinds(res pbt.Result) pbt.Result {
	kept := res.Violations[:0]
	for _, v := range res.Violations {
		switch {
		case strings.HasSuffix(v.Kind, "alert-status"), strings.HasSuffix(v.Kind, "alert-endsAt"), strings.HasSuffix(v.Kind, "-status"), v.Kind == "harness":
			kept = append(kept, v)
		default:
			res.Class("other-property-kind:" + v.Kind)
		}
	}
	res.Violations = kept
	return res
}

func TestC05Payload(t *testing.T) {
	pbt.Run(t, pbt.Spec[c20PayloadScenario]{
		Property: "C05", Name: "C05Payload",
		Rule: "the C20Payload cases (batches of firing and resolved alerts, a third of the alerts with an end derived from resolve_timeout) judged for C05 only: in the data handed to templates every alert whose end has passed is listed with status resolved and its end time, the others as firing, and the overall status is firing iff one of them fires. Non-trivial: the batch holds a resolved alert whose end was derived from resolve_timeout.",
		Gen:  genC20Payload,
		Exec: func(sc c20PayloadScenario) pbt.Result {
			res := c05PayloadKinds(execC20Payload(sc))
			res.NonTrivial = false
			for _, a := range sc.Alerts {
				if a.Resolved && a.Timeout {
					res.NonTrivial = true
				}
			}
			return res
		},
	})
}

func TestC05Webhook(t *testing.T) {
	pbt.Run(t, pbt.Spec[c20WebhookScenario]{
		Property: "C05", Name: "C05Webhook",
		Rule: "the C20Webhook cases (the real webhook integration posting to a loopback endpoint) judged for C05 only: in the JSON body every listed alert whose end has passed has status resolved and its end time, and the overall status is firing iff a listed alert fires. Non-trivial: the batch holds a resolved alert whose end was derived from resolve_timeout.",
		Gen:  genC20Webhook,
		Exec: func(sc c20WebhookScenario) pbt.Result {
			res := c05PayloadKinds(execC20Webhook(sc))
			res.NonTrivial = false
			for _, a := range sc.Alerts {
				if a.Resolved && a.Timeout {
					res.NonTrivial = true
				}
			}
			return res
		},
	})
}
