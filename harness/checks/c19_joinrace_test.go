package checks

// C19JoinRace: "every silence … update broadcast by an instance is merged by every instance that stays connected to it
// … and a joining instance obtains the complete current state through the full-state exchange": updates authored
// around a join. Real memberlist on loopback, periodic push/pull off (only the exchange of the join itself). An update
// is authored on the seed node before the join (reaches the joiner in the full state), right after the seed node's
// state has been serialised for the joiner (a hook on the state's MarshalBinary: by then it is in neither the full
// state nor, unless the gossip queue keeps it for the member that is about to appear, on the wire) and after the join
// (gossip). The joiner must hold all of them within 10 s.

import (
	"context"
	"fmt"
	"sync"
	"testing"
	"time"

	"google.golang.org/protobuf/types/known/timestamppb"
	"pgregory.net/rapid"

	"github.com/prometheus/alertmanager/cluster"
	"github.com/prometheus/alertmanager/silence"
	pb "github.com/prometheus/alertmanager/silence/silencepb"

	"verif/harness/pbt"
)

type c19jrScenario struct {
	Before   int `json:"before"`    // updates on the seed node while it is alone
	During   int `json:"during"`    // updates authored right after its state was serialised for the joiner
	After    int `json:"after"`     // updates after the join
	GossipMs int `json:"gossip_ms"` // gossip interval
	Joiners  int `json:"joiners"`   // 1-2 joiners one after the other (the hook fires for the first)
}

func genC19JoinRace(t *rapid.T) c19jrScenario {
	return c19jrScenario{Before: rapid.IntRange(0, 2).Draw(t, "before"), During: rapid.IntRange(1, 3).Draw(t, "during"), After: rapid.IntRange(0, 2).Draw(t, "after"),
		GossipMs: rapid.SampledFrom([]int{20, 50, 200}).Draw(t, "gossip"), Joiners: rapid.IntRange(1, 2).Draw(t, "joiners")}
}

type c19jrHook struct {
	cluster.State
	mu    sync.Mutex
	armed func()
}

func (h *c19jrHook) MarshalBinary() ([]byte, error) {
	b, err := h.State.MarshalBinary()
	h.mu.Lock()
	f := h.armed
	h.armed = nil
	h.mu.Unlock()
	if f != nil {
		f()
	}
	return b, err
}

func execC19JoinRace(sc c19jrScenario) (res pbt.Result) {
	gossip := time.Duration(sc.GossipMs) * time.Millisecond
	hook := &c19jrHook{}
	var nodes []*c19Node
	defer func() {
		for _, n := range nodes {
			if n != nil && n.peer != nil {
				if n.settleCancel != nil {
					n.settleCancel()
				}
				c19Shutdown(n.peer)
			}
		}
	}()
	seed, err := c19NewNode("jr-seed", "", nil, gossip, nil, nil, c19NodeOpts{silWrap: func(s cluster.State) cluster.State { hook.State = s; return hook }})
	if seed != nil {
		nodes = append(nodes, seed)
	}
	if err != nil {
		res.Class("environment-error")
		return res
	}
	ctx := context.Background()
	now := time.Now()
	var ids []string
	phase := map[string]string{}
	author := func(tag string) {
		s := &pb.Silence{MatcherSets: []*pb.MatcherSet{{Matchers: []*pb.Matcher{{Type: pb.Matcher_EQUAL, Name: "sid", Pattern: fmt.Sprint(tag, len(ids))}}}},
			StartsAt: timestamppb.New(now), EndsAt: timestamppb.New(now.Add(time.Hour)), CreatedBy: "c19", Comment: "c"}
		if err := seed.sil.Set(ctx, s); err == nil {
			ids = append(ids, s.Id)
			phase[s.Id] = tag
		}
	}
	for i := 0; i < sc.Before; i++ {
		author("before")
	}
	hook.mu.Lock()
	hook.armed = func() {
		for i := 0; i < sc.During; i++ {
			author("during-join")
		}
	}
	hook.mu.Unlock()
	for j := 0; j < sc.Joiners; j++ {
		n, err := c19NewNode(fmt.Sprintf("jr-joiner%d", j), "", []string{seed.addr}, gossip, nil, nil, c19NodeOpts{})
		if n != nil {
			nodes = append(nodes, n)
		}
		if err != nil {
			res.Class("environment-error")
			return res
		}
	}
	hook.mu.Lock()
	fired := hook.armed == nil
	hook.armed = nil
	hook.mu.Unlock()
	for i := 0; i < sc.After; i++ {
		author("after")
	}
	deadline := time.Now().Add(10 * time.Second)
	missing := map[string][]string{}
	for {
		missing = map[string][]string{}
		for _, n := range nodes[1:] {
			for _, id := range ids {
				if got, _, err := n.sil.Query(ctx, silence.QIDs(id)); err != nil || len(got) != 1 {
					missing[n.name] = append(missing[n.name], phase[id])
				}
			}
		}
		if len(missing) == 0 || time.Now().After(deadline) {
			break
		}
		time.Sleep(20 * time.Millisecond)
	}
	for name, ph := range missing {
		res.Add(pbt.V("update-around-join-lost", "joiner %s still lacks %d of the seed node's %d silence updates 10 s after joining (periodic push/pull is off): authored %v", name, len(ph), len(ids), ph).With("phases", ph))
	}
	res.NonTrivial = fired
	if fired {
		res.Class("update-authored-right-after-the-state-was-serialised")
	}
	return res
}

func TestC19JoinRace(t *testing.T) {
	pbt.Run(t, pbt.Spec[c19jrScenario]{
		Property: "C19", Name: "C19JoinRace",
		Rule: "a seed instance (real cluster.Peer on loopback, wired like app.setup, periodic push/pull off, gossip interval 20-200 ms) authors 0-2 silence updates while alone; 1-2 instances join it; 1-3 updates are authored on the seed right after its state has been serialised for the first joiner's full-state exchange (hook on the state's MarshalBinary), 0-2 more after the joins. Within 10 s every joiner holds every update. Environment errors (sockets) make the case inconclusive. Non-trivial: the hook fired.",
		Gen:  genC19JoinRace, Exec: execC19JoinRace,
	})
}
