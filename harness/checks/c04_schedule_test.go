package checks

import (
	"testing"

	"verif/harness/pbt"
)

// C04Schedule: the E4 schedules of C06Schedule judged for C04: once every dispatcher goroutine has been released and
// the groups have settled, no notification lists as firing an alert whose last submitted version ended more than a
// group_interval before (a group that was removed from the map while live keeps notifying from its stale copy).
func TestC04Schedule(t *testing.T) {
	pbt.Run(t, pbt.Spec[c06Scenario]{
		Property: "C04", Name: "C04Schedule",
		Rule: "the scenarios of C06Schedule (fire / resolve / re-fire of up to four label sets; dispatcher goroutines parked at the hook points around group creation, the maintenance sweep and flush completion and released in a generated order). Judged here: after draining and settling, no notification made by a group that is not a member of the dispatcher's map lists as firing an alert whose last submitted version ended more than group_interval earlier (kind stale-firing-notification; the same from a regular group is judged by C14Schedule). Non-trivial: two goroutines were inside groupAlert for creation at once.",
		Gen:  genC06,
		Exec: func(sc c06Scenario) pbt.Result {
			res := execC06(sc)
			kept := res.Violations[:0]
			for _, v := range res.Violations {
				// (a stale version held by a regular group is C14's business: finding F24)
				if (v.Kind == "stale-firing-notification" && v.Facts["holding_group_listed"] != true) || v.Kind == "harness" {
					kept = append(kept, v)
				}
			}
			res.Violations = kept
			return res
		},
	})
}
