package checks

import (
	"slices"
	"testing"

	"pgregory.net/rapid"

	"verif/harness/pbt"
)

// genC04Schedule: the C06Schedule scenarios, half of them after a prefix that walks one group through fire, resolved
// notification and destruction, holds the maintenance sweep at maint.destroyed (just before it removes the group from
// the map) while the alert fires again, lets the sweep finish and then resolves the alert: whatever group the sweep
// removed, no group outside the map may go on notifying the alert as firing.
func genC04Schedule(t *rapid.T) c06Scenario {
	sc := genC06(t)
	if rapid.Bool().Draw(t, "sweepPrefix") {
		if !slices.Contains(sc.Park, "maint.destroyed") {
			sc.Park = append(sc.Park, "maint.destroyed")
		}
		a := rapid.IntRange(0, 3).Draw(t, "sweepAlert")
		pre := []c06Step{{Op: "put", Alert: a, EndOff: 4}, {Op: "advance", Dt: 8}, {Op: "release"}, {Op: "release"},
			{Op: "advance", Dt: sc.GroupInterval + 1}, {Op: "release"}, {Op: "release"},
			{Op: "advance", Dt: sc.Maint + 1}, // the sweep reaches the destroyed group and parks
			{Op: "put", Alert: a, EndOff: 300}, {Op: "release"}, {Op: "release"}, {Op: "release"},
			{Op: "put", Alert: a, EndOff: -1}, {Op: "release"}, {Op: "release"}}
		sc.Steps = append(pre, sc.Steps...)
	}
	return sc
}

// C04Schedule: the E4 schedules of C06Schedule judged for C04: once every dispatcher goroutine has been released and
// the groups have settled, no notification lists as firing an alert whose last submitted version ended more than a
// group_interval before (a group that was removed from the map while live keeps notifying from its stale copy).
func TestC04Schedule(t *testing.T) {
	pbt.Run(t, pbt.Spec[c06Scenario]{
		Property: "C04", Name: "C04Schedule",
		Rule: "the scenarios of C06Schedule (fire / resolve / re-fire of up to four label sets; dispatcher goroutines parked at the hook points around group creation, the maintenance sweep and flush completion and released in a generated order; half of the cases after a prefix in which the maintenance sweep is held just before it removes a destroyed group while the group's alert fires again and is resolved afterwards). Judged here: after draining and settling, no notification made by a group that is not a member of the dispatcher's map lists as firing an alert whose last submitted version ended more than group_interval earlier (kind stale-firing-notification; the same from a regular group is judged by C14Schedule). Non-trivial: two goroutines were inside groupAlert for creation at once.",
		Gen:  genC04Schedule,
		Exec: func(sc c06Scenario) pbt.Result {
			res := execC06(sc)
			kept := res.Violations[:0]
			for _, v := range res.Violations {
				// (a stale version held by a regular group is C14's business: finding F24)
				if (v.Kind == "stale-firing-notification" && v.Facts["holding_group_listed"] != true) || v.Kind == "harness" {
					kept = append(kept, v)
				}
			}
			res.Violations = kept
			return res
		},
	})
}
