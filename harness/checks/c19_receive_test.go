package checks

// C19 — receive path of the gossip transport (engine E3: rapid + native fuzz).
//
// One never-joined cluster.Peer per process provides the real memberlist
// delegate (Peer.VerifDelegate, build tag verif). Every case registers fresh
// silences and a fresh notification log behind it and calls NotifyMsg,
// MergeRemoteState, LocalState and GetBroadcasts directly, the way memberlist
// does when packets, streams and push/pull exchanges arrive.

import (
	"bufio"
	"bytes"
	"context"
	"fmt"
	"regexp"
	"runtime/debug"
	"sync"
	"testing"
	"time"

	"github.com/hashicorp/memberlist"
	"github.com/prometheus/client_golang/prometheus"
	"github.com/prometheus/common/model"
	"google.golang.org/protobuf/encoding/protodelim"
	"google.golang.org/protobuf/proto"
	"google.golang.org/protobuf/types/known/timestamppb"
	"pgregory.net/rapid"

	"github.com/prometheus/alertmanager/cluster"
	"github.com/prometheus/alertmanager/cluster/clusterpb"
	"github.com/prometheus/alertmanager/eventrecorder"
	"github.com/prometheus/alertmanager/featurecontrol"
	"github.com/prometheus/alertmanager/matcher/compat"
	"github.com/prometheus/alertmanager/nflog"
	"github.com/prometheus/alertmanager/nflog/nflogpb"
	"github.com/prometheus/alertmanager/pkg/labels"
	"github.com/prometheus/alertmanager/silence"
	"github.com/prometheus/alertmanager/silence/silencepb"

	"verif/harness/pbt"
)

// ------------------------------------------------------------------ scenario

type c19M struct {
	T int32  `json:"t"` // silencepb.Matcher_Type (0 =, 1 =~, 2 !=, 3 !~; others are unknown to the code)
	N string `json:"n"`
	P string `json:"p"`
}

// c19Sil is a symbolic silence; times are whole seconds relative to the start
// of the execution (always >= 10 minutes away from any boundary).
type c19Sil struct {
	ID      string            `json:"id"`
	Sets    [][]c19M          `json:"sets"`
	Start   int64             `json:"start"`
	End     int64             `json:"end"`
	Upd     int64             `json:"upd"`
	Exp     int64             `json:"exp"`
	Comment int               `json:"comment"`          // bytes
	Legacy  bool              `json:"legacy,omitempty"` // encoded as an old release would: only the `matchers` field
	Probe   map[string]string `json:"probe,omitempty"`  // a label set covered by Sets[0]
}

type c19Ent struct {
	G   string `json:"g"`
	R   string `json:"r"`
	Idx uint32 `json:"idx"`
	Ts  int64  `json:"ts"`
	Exp int64  `json:"exp"`
	NF  int    `json:"nf"`
	NR  int    `json:"nr"`
}

type c19Mut struct {
	Op  string `json:"op"` // trunc | flip | ins | del | set
	Pos int    `json:"pos"`
	Val byte   `json:"val,omitempty"`
}

// c19Part: payload = delimited Sils, then delimited Ents, then Junk; then Muts.
type c19Part struct {
	Key  string   `json:"key"`
	Sils []c19Sil `json:"sils,omitempty"`
	Ents []c19Ent `json:"ents,omitempty"`
	Junk []byte   `json:"junk,omitempty"`
	Muts []c19Mut `json:"muts,omitempty"`
}

type c19Delivery struct {
	Via   string    `json:"via"` // notify (clusterpb.Part to NotifyMsg) | full (clusterpb.FullState to MergeRemoteState)
	Parts []c19Part `json:"parts,omitempty"`
	Raw   []byte    `json:"raw,omitempty"`   // delivered as is when there are no parts
	Muts  []c19Mut  `json:"muts,omitempty"`  // applied to the encoded message
	Times int       `json:"times,omitempty"` // extra identical deliveries
}

type c19RecvScenario struct {
	Prior   []c19Delivery `json:"prior"`   // valid: establishes the state S
	Hostile []c19Delivery `json:"hostile"` // anything
	After   []c19Delivery `json:"after"`   // valid updates delivered afterwards
}

// ---------------------------------------------------------------- generators

var c19ReTable = [][2]string{{"web-.*", "web-1"}, {"(a|b)c", "bc"}, {"[0-9]+", "42"}, {".+", "x"}, {"db(-[a-z]+)?", "db-eu"}}

type c19Gen struct {
	t    *rapid.T
	nSil int
	nEnt int
}

func (g *c19Gen) sil(role string, state string) c19Sil {
	t := g.t
	id := fmt.Sprintf("%s%d-%s", role, g.nSil, rapid.StringMatching(`[0-9a-f]{10}`).Draw(t, "idsfx"))
	g.nSil++
	s := c19Sil{ID: id, Probe: map[string]string{"sid": id}}
	set := []c19M{{T: 0, N: "sid", P: id}}
	names := []string{"alertname", "job", "inst"}
	for i, n := 0, rapid.IntRange(0, 2).Draw(t, "extra"); i < n; i++ {
		switch rapid.IntRange(0, 3).Draw(t, "mk") {
		case 0:
			v := rapid.SampledFrom([]string{"a", "High CPU", "ü", "x\ny"}).Draw(t, "v")
			set = append(set, c19M{T: 0, N: names[i], P: v})
			s.Probe[names[i]] = v
		case 1:
			r := rapid.SampledFrom(c19ReTable).Draw(t, "re")
			set = append(set, c19M{T: 1, N: names[i], P: r[0]})
			s.Probe[names[i]] = r[1]
		case 2:
			set = append(set, c19M{T: 2, N: "neg" + names[i], P: "zzz"})
		default:
			set = append(set, c19M{T: 3, N: "neg" + names[i], P: "zz+"})
		}
	}
	s.Sets = [][]c19M{set}
	if rapid.IntRange(0, 4).Draw(t, "legacy") == 0 {
		s.Legacy = true
	} else if rapid.IntRange(0, 3).Draw(t, "twoSets") == 0 {
		s.Sets = append(s.Sets, []c19M{{T: 0, N: "sid2", P: id}})
	}
	if state == "" {
		state = rapid.SampledFrom([]string{"active", "active", "active", "pending", "expired"}).Draw(t, "state")
	}
	switch state {
	case "active":
		s.Start = -int64(rapid.IntRange(600, 7200).Draw(t, "start"))
		s.End = int64(rapid.IntRange(600, 86400).Draw(t, "end"))
	case "pending":
		s.Start = int64(rapid.IntRange(600, 7200).Draw(t, "start"))
		s.End = s.Start + int64(rapid.IntRange(600, 86400).Draw(t, "dur"))
	default:
		s.End = -int64(rapid.IntRange(600, 7200).Draw(t, "end"))
		s.Start = s.End - int64(rapid.IntRange(600, 7200).Draw(t, "dur"))
	}
	s.Upd = -int64(rapid.IntRange(7300, 20000).Draw(t, "upd"))
	s.Exp = s.End + 432000
	if rapid.IntRange(0, 5).Draw(t, "bigc") == 0 {
		s.Comment = rapid.IntRange(500, 1500).Draw(t, "commentBig") // payload around / above the gossip limit
	} else {
		s.Comment = rapid.IntRange(0, 80).Draw(t, "comment")
	}
	return s
}

func (g *c19Gen) ent(role string) c19Ent {
	t := g.t
	e := c19Ent{
		G:   fmt.Sprintf("{}:{g=\"%s%d-%s\"}", role, g.nEnt, rapid.StringMatching(`[0-9a-f]{8}`).Draw(t, "gsfx")),
		R:   rapid.SampledFrom([]string{"team-a", "team-b", "ops/üö"}).Draw(t, "recv"),
		Idx: uint32(rapid.IntRange(0, 2).Draw(t, "idx")),
		Ts:  -int64(rapid.IntRange(600, 20000).Draw(t, "ts")),
		Exp: int64(rapid.IntRange(3600, 432000).Draw(t, "exp")),
		NF:  rapid.IntRange(0, 6).Draw(t, "nf"),
		NR:  rapid.IntRange(0, 3).Draw(t, "nr"),
	}
	g.nEnt++
	if rapid.IntRange(0, 7).Draw(t, "bige") == 0 {
		e.NF = rapid.IntRange(60, 120).Draw(t, "nfBig")
	}
	return e
}

func (g *c19Gen) silPart(role, state string) c19Part {
	p := c19Part{Key: "sil"}
	for i, n := 0, rapid.IntRange(1, 2).Draw(g.t, "nsil"); i < n; i++ {
		p.Sils = append(p.Sils, g.sil(role, state))
	}
	return p
}

func (g *c19Gen) entPart(role string) c19Part {
	p := c19Part{Key: "nfl"}
	for i, n := 0, rapid.IntRange(1, 2).Draw(g.t, "nent"); i < n; i++ {
		p.Ents = append(p.Ents, g.ent(role))
	}
	return p
}

func (g *c19Gen) via() string { return rapid.SampledFrom([]string{"notify", "full"}).Draw(g.t, "via") }

func (g *c19Gen) muts(max int) []c19Mut {
	var out []c19Mut
	for i, n := 0, rapid.IntRange(1, max).Draw(g.t, "nmut"); i < n; i++ {
		out = append(out, c19Mut{
			Op:  rapid.SampledFrom([]string{"trunc", "flip", "flip", "ins", "del", "set"}).Draw(g.t, "mop"),
			Pos: rapid.IntRange(0, 4000).Draw(g.t, "mpos"),
			Val: rapid.Byte().Draw(g.t, "mval"),
		})
	}
	return out
}

func (g *c19Gen) junk() []byte {
	switch rapid.IntRange(0, 2).Draw(g.t, "junkKind") {
	case 0:
		return rapid.SliceOfN(rapid.Byte(), 1, 40).Draw(g.t, "junk")
	case 1:
		// a length prefix that promises more than there is
		return append([]byte{byte(rapid.IntRange(20, 127).Draw(g.t, "len"))}, rapid.SliceOfN(rapid.Byte(), 0, 10).Draw(g.t, "short")...)
	default:
		return []byte{0x05, 0xff, 0xff, 0xff, 0xff, 0xff}
	}
}

// hostilePart draws one part of a mixed full state (or of a notify message).
func (g *c19Gen) hostilePart(prior []c19Delivery) c19Part {
	switch rapid.IntRange(0, 11).Draw(g.t, "partKind") {
	case 0, 1:
		return g.silPart("h", "active") // valid: must be merged wherever it stands
	case 2, 3:
		return g.entPart("h") // valid
	case 4:
		p := rapid.SampledFrom([]c19Part{g.silPart("u", ""), g.entPart("u"), {Junk: g.junk()}}).Draw(g.t, "ukPayload")
		p.Key = rapid.SampledFrom([]string{"", "alerts", "sil2", "NFL", "sil\x00", "ü"}).Draw(g.t, "unknownKey")
		return p
	case 5:
		return c19Part{Key: "sil", Junk: g.junk()} // malformed payload
	case 6:
		return c19Part{Key: "nfl", Junk: g.junk()}
	case 7:
		p := g.silPart("m", "")
		if rapid.Bool().Draw(g.t, "tail") {
			p.Junk = g.junk() // valid messages followed by garbage
		} else {
			p.Muts = g.muts(3)
		}
		return p
	case 8:
		p := g.entPart("m")
		if rapid.Bool().Draw(g.t, "tail") {
			p.Junk = g.junk()
		} else {
			p.Muts = g.muts(3)
		}
		return p
	case 9:
		// payload of the other state under this key
		if rapid.Bool().Draw(g.t, "cross") {
			p := g.entPart("x")
			p.Key = "sil"
			return p
		}
		p := g.silPart("x", "")
		p.Key = "nfl"
		return p
	case 10:
		// duplicate / stale version of something the node already holds
		d := prior[rapid.IntRange(0, len(prior)-1).Draw(g.t, "dupOf")]
		p := d.Parts[rapid.IntRange(0, len(d.Parts)-1).Draw(g.t, "dupPart")]
		q := c19Part{Key: p.Key, Sils: append([]c19Sil(nil), p.Sils...), Ents: append([]c19Ent(nil), p.Ents...)}
		if rapid.Bool().Draw(g.t, "stale") {
			for i := range q.Sils {
				q.Sils[i].Upd -= int64(rapid.IntRange(1, 5000).Draw(g.t, "older"))
				q.Sils[i].Comment += 7
				q.Sils[i].End += 60
			}
			for i := range q.Ents {
				q.Ents[i].Ts -= int64(rapid.IntRange(1, 5000).Draw(g.t, "older"))
				q.Ents[i].NF++
			}
		}
		return q
	default:
		return c19Part{Key: rapid.SampledFrom([]string{"sil", "nfl"}).Draw(g.t, "emptyKey")} // empty payload
	}
}

func (g *c19Gen) hostile(prior []c19Delivery) c19Delivery {
	t := g.t
	var d c19Delivery
	switch rapid.IntRange(0, 9).Draw(t, "hostileKind") {
	case 0:
		d = c19Delivery{Via: g.via(), Raw: rapid.SliceOfN(rapid.Byte(), 0, 64).Draw(t, "raw")}
	case 1, 2:
		// a real message, truncated / bit-flipped / with bytes inserted
		d = c19Delivery{Via: g.via(), Muts: g.muts(3)}
		d.Parts = append(d.Parts, rapid.SampledFrom([]c19Part{g.silPart("m", ""), g.entPart("m")}).Draw(t, "mutated"))
		if d.Via == "full" && rapid.Bool().Draw(t, "second") {
			d.Parts = append(d.Parts, g.entPart("m"))
		}
	case 3:
		d = c19Delivery{Via: "notify", Parts: []c19Part{g.hostilePart(prior)}}
	default:
		d = c19Delivery{Via: "full"}
		for i, n := 0, rapid.IntRange(2, 5).Draw(t, "nparts"); i < n; i++ {
			d.Parts = append(d.Parts, g.hostilePart(prior))
		}
	}
	if rapid.IntRange(0, 3).Draw(t, "dup") == 0 {
		d.Times = rapid.IntRange(1, 3).Draw(t, "times")
	}
	return d
}

func (g *c19Gen) valid(role, state string) c19Delivery {
	d := c19Delivery{Via: g.via()}
	if d.Via == "notify" {
		if rapid.Bool().Draw(g.t, "silOrNfl") {
			d.Parts = []c19Part{g.silPart(role, state)}
		} else {
			d.Parts = []c19Part{g.entPart(role)}
		}
		return d
	}
	d.Parts = []c19Part{g.silPart(role, state), g.entPart(role)}
	if rapid.Bool().Draw(g.t, "swap") {
		d.Parts[0], d.Parts[1] = d.Parts[1], d.Parts[0]
	}
	return d
}

var c19PoisonMatchers = []c19M{{T: 1, N: "job", P: "("}, {T: 3, N: "job", P: "a["}, {T: 1, N: "job", P: "*"}, {T: 7, N: "job", P: "x"}}

func genC19Recv(t *rapid.T) c19RecvScenario {
	g := &c19Gen{t: t}
	var sc c19RecvScenario
	// S always holds an active silence and a log entry
	sc.Prior = append(sc.Prior, c19Delivery{Via: g.via(), Parts: []c19Part{g.silPart("p", "active")}})
	sc.Prior = append(sc.Prior, c19Delivery{Via: g.via(), Parts: []c19Part{g.entPart("p")}})
	for i, n := 0, rapid.IntRange(0, 2).Draw(t, "nprior"); i < n; i++ {
		sc.Prior = append(sc.Prior, g.valid("p", ""))
	}
	for i, n := 0, rapid.IntRange(1, 5).Draw(t, "nhostile"); i < n; i++ {
		sc.Hostile = append(sc.Hostile, g.hostile(sc.Prior))
	}
	if rapid.IntRange(0, 39).Draw(t, "knownF9") == 23 {
		// small path that reproduces finding F9 (so that its hits are measured): a
		// protobuf-valid silence whose matcher does not compile
		p := g.silPart("f9", rapid.SampledFrom([]string{"active", "pending"}).Draw(t, "f9state"))
		p.Sils[0].Sets[0] = append(p.Sils[0].Sets[0], rapid.SampledFrom(c19PoisonMatchers).Draw(t, "poison"))
		sc.Hostile = append(sc.Hostile, c19Delivery{Via: g.via(), Parts: []c19Part{p}})
	}
	if rapid.IntRange(0, 7).Draw(t, "poisonedNewer") == 0 {
		// a protobuf-valid NEWER version of a silence of S whose matchers do not compile: malformed, so S's silence
		// must stay as it is (held, effective, handed on in the full state)
		src := sc.Prior[0].Parts[0]
		q := c19Part{Key: src.Key, Sils: append([]c19Sil(nil), src.Sils...)}
		for i := range q.Sils {
			q.Sils[i].Upd += int64(rapid.IntRange(1, 600).Draw(t, "poisonNewer"))
			sets := make([][]c19M, len(q.Sils[i].Sets))
			for j := range sets {
				sets[j] = append([]c19M(nil), q.Sils[i].Sets[j]...)
			}
			sets[0] = append(sets[0], rapid.SampledFrom(c19PoisonMatchers).Draw(t, "poison"))
			q.Sils[i].Sets = sets
		}
		sc.Hostile = append(sc.Hostile, c19Delivery{Via: g.via(), Parts: []c19Part{q}})
	}
	sc.After = append(sc.After, c19Delivery{Via: g.via(), Parts: []c19Part{g.silPart("a", "active")}})
	sc.After = append(sc.After, c19Delivery{Via: g.via(), Parts: []c19Part{g.entPart("a")}})
	if rapid.Bool().Draw(t, "newerVersion") {
		// a newer version of a silence / entry of S is a valid update as well
		src := sc.Prior[rapid.IntRange(0, 1).Draw(t, "newerOf")].Parts[0]
		q := c19Part{Key: src.Key, Sils: append([]c19Sil(nil), src.Sils...), Ents: append([]c19Ent(nil), src.Ents...)}
		for i := range q.Sils {
			q.Sils[i].Upd += int64(rapid.IntRange(1, 600).Draw(t, "newer"))
			q.Sils[i].End += 120
			q.Sils[i].Exp += 120
			q.Sils[i].Comment += 3
		}
		for i := range q.Ents {
			q.Ents[i].Ts += int64(rapid.IntRange(1, 500).Draw(t, "newer"))
			q.Ents[i].NF += 2
		}
		sc.After = append(sc.After, c19Delivery{Via: g.via(), Parts: []c19Part{q}})
	}
	return sc
}

// ------------------------------------------------------------------ encoding

type c19Enc struct{ now int64 }

func (x c19Enc) ts(off int64) *timestamppb.Timestamp {
	return timestamppb.New(time.Unix(x.now+off, 0))
}

func c19PbMatchers(ms []c19M) []*silencepb.Matcher {
	out := make([]*silencepb.Matcher, 0, len(ms))
	for _, m := range ms {
		out = append(out, &silencepb.Matcher{Type: silencepb.Matcher_Type(m.T), Name: m.N, Pattern: m.P})
	}
	return out
}

// stored is the silence as every reader of the state must see it.
func (x c19Enc) stored(s c19Sil) *silencepb.Silence {
	out := &silencepb.Silence{Id: s.ID, StartsAt: x.ts(s.Start), EndsAt: x.ts(s.End), UpdatedAt: x.ts(s.Upd),
		CreatedBy: "c19", Comment: c19Comment(len(s.ID), s.Comment)}
	sets := s.Sets
	if s.Legacy {
		sets = sets[:1]
	}
	for _, set := range sets {
		out.MatcherSets = append(out.MatcherSets, &silencepb.MatcherSet{Matchers: c19PbMatchers(set)})
	}
	return out
}

// wire is the silence as a peer sends it: current releases fill matcher_sets
// and copy the first set to matchers; old releases only know matchers.
func (x c19Enc) wire(s c19Sil) *silencepb.MeshSilence {
	w := x.stored(s)
	if len(s.Sets) > 0 {
		w.Matchers = c19PbMatchers(s.Sets[0])
	}
	if s.Legacy {
		w.MatcherSets = nil
	}
	return &silencepb.MeshSilence{Silence: w, ExpiresAt: x.ts(s.Exp)}
}

func (x c19Enc) entry(e c19Ent) *nflogpb.MeshEntry {
	return &nflogpb.MeshEntry{Entry: &nflogpb.Entry{
		Receiver:  &nflogpb.Receiver{GroupName: e.R, Integration: "webhook", Idx: e.Idx},
		GroupKey:  []byte(e.G),
		Timestamp: x.ts(e.Ts), FiringAlerts: c19Hashes(int(e.Idx), e.NF), ResolvedAlerts: c19Hashes(50, e.NR),
	}, ExpiresAt: x.ts(e.Exp)}
}

func c19Mutate(b []byte, muts []c19Mut) []byte {
	b = append([]byte(nil), b...)
	for _, m := range muts {
		n := len(b)
		switch m.Op {
		case "trunc":
			b = b[:m.Pos%(n+1)]
		case "ins":
			p := m.Pos % (n + 1)
			b = append(b[:p:p], append([]byte{m.Val}, b[p:]...)...)
		case "flip":
			if n > 0 {
				p := m.Pos % (8 * n)
				b[p/8] ^= 1 << (p % 8)
			}
		case "del":
			if n > 0 {
				p := m.Pos % n
				b = append(b[:p:p], b[p+1:]...)
			}
		case "set":
			if n > 0 {
				b[m.Pos%n] = m.Val
			}
		}
	}
	return b
}

func (x c19Enc) part(p c19Part) *clusterpb.Part {
	var buf bytes.Buffer
	for _, s := range p.Sils {
		protodelim.MarshalTo(&buf, x.wire(s))
	}
	for _, e := range p.Ents {
		protodelim.MarshalTo(&buf, x.entry(e))
	}
	buf.Write(p.Junk)
	return &clusterpb.Part{Key: p.Key, Data: c19Mutate(buf.Bytes(), p.Muts)}
}

func (x c19Enc) delivery(d c19Delivery) []byte {
	if len(d.Parts) == 0 {
		return c19Mutate(d.Raw, d.Muts)
	}
	var b []byte
	if d.Via == "notify" {
		b, _ = proto.Marshal(x.part(d.Parts[0]))
	} else {
		fs := &clusterpb.FullState{}
		for _, p := range d.Parts {
			fs.Parts = append(fs.Parts, x.part(p))
		}
		b, _ = proto.Marshal(fs)
	}
	return c19Mutate(b, d.Muts)
}

func c19Compiles(ms []c19M) bool {
	for _, m := range ms {
		if m.T < 0 || m.T > 3 {
			return false
		}
		if m.T == 1 || m.T == 3 {
			if _, err := regexp.Compile("^(?:" + m.P + ")$"); err != nil {
				return false
			}
		}
	}
	return true
}

// c19ValidPart: a part every release understands: known key, only well-formed
// messages of that state, nothing else.
func c19ValidPart(p c19Part) bool {
	if len(p.Junk) > 0 || len(p.Muts) > 0 {
		return false
	}
	switch p.Key {
	case "sil":
		if len(p.Ents) > 0 || len(p.Sils) == 0 {
			return false
		}
		for _, s := range p.Sils {
			if len(s.Sets) == 0 || s.Exp < 600 {
				return false
			}
			for _, set := range s.Sets {
				if len(set) == 0 || !c19Compiles(set) {
					return false
				}
			}
		}
		return true
	case "nfl":
		if len(p.Sils) > 0 || len(p.Ents) == 0 {
			return false
		}
		for _, e := range p.Ents {
			if e.Exp < 600 {
				return false
			}
		}
		return true
	}
	return false
}

// --------------------------------------------- independent look at the bytes

// c19Scan decodes what can be decoded of a delivered message with the protobuf
// library only (no alertmanager code): silences and entries that a receiver
// could possibly take from it.
type c19Scanned struct {
	decoded bool // the outer message decoded to a Part with a key / a FullState with parts
	sils    []*silencepb.MeshSilence
	ents    []*nflogpb.MeshEntry
}

func c19ScanPayload(key string, data []byte, out *c19Scanned) {
	if key == "sil" {
		br := bufio.NewReader(bytes.NewReader(data))
		for {
			var m silencepb.MeshSilence
			if err := protodelim.UnmarshalFrom(br, &m); err != nil {
				return
			}
			if m.Silence != nil {
				out.sils = append(out.sils, &m)
			}
		}
	}
	if key == "nfl" {
		br := bufio.NewReader(bytes.NewReader(data))
		for {
			var m nflogpb.MeshEntry
			if err := protodelim.UnmarshalFrom(br, &m); err != nil {
				return
			}
			if m.Entry != nil && m.Entry.Receiver != nil {
				out.ents = append(out.ents, &m)
			}
		}
	}
}

func c19Scan(via string, b []byte) c19Scanned {
	var out c19Scanned
	if via == "notify" {
		var p clusterpb.Part
		if proto.Unmarshal(b, &p) == nil {
			out.decoded = p.Key != "" || len(p.Data) > 0
			c19ScanPayload(p.Key, p.Data, &out)
		}
		return out
	}
	var fs clusterpb.FullState
	if proto.Unmarshal(b, &fs) == nil {
		out.decoded = len(fs.Parts) > 0
		for _, p := range fs.Parts {
			c19ScanPayload(p.Key, p.Data, &out)
		}
	}
	return out
}

func c19Uncompilable(s *silencepb.Silence) bool {
	sets := s.MatcherSets
	if len(sets) == 0 && len(s.Matchers) > 0 {
		sets = []*silencepb.MatcherSet{{Matchers: s.Matchers}}
	}
	for _, set := range sets {
		for _, m := range set.Matchers {
			if m == nil {
				continue
			}
			var mt labels.MatchType
			switch m.Type {
			case silencepb.Matcher_EQUAL:
				mt = labels.MatchEqual
			case silencepb.Matcher_NOT_EQUAL:
				mt = labels.MatchNotEqual
			case silencepb.Matcher_REGEXP:
				mt = labels.MatchRegexp
			case silencepb.Matcher_NOT_REGEXP:
				mt = labels.MatchNotRegexp
			default:
				return true
			}
			if _, err := labels.NewMatcher(mt, m.Name, m.Pattern); err != nil {
				return true
			}
		}
	}
	return false
}

// ----------------------------------------------------- the node under test

type c19Proxy struct {
	mtx sync.RWMutex
	cur cluster.State
}

func (p *c19Proxy) get() cluster.State {
	p.mtx.RLock()
	defer p.mtx.RUnlock()
	return p.cur
}
func (p *c19Proxy) set(s cluster.State) { p.mtx.Lock(); p.cur = s; p.mtx.Unlock() }

func (p *c19Proxy) MarshalBinary() ([]byte, error) { return p.get().MarshalBinary() }
func (p *c19Proxy) Merge(b []byte) error           { return p.get().Merge(b) }

// c19RecvNode is a real, never-joined Peer whose two registered states forward
// to the fresh stores of the current case (one socket pair per process instead
// of one per case).
type c19RecvNode struct {
	peer         *cluster.Peer
	d            memberlist.Delegate
	silP, nflP   *c19Proxy
	silCh, nflCh cluster.ClusterChannel

	sil      *silence.Silences
	nfl      *nflog.Log
	silencer *silence.Silencer
}

var (
	c19RecvOnce  sync.Once
	c19RecvNodes [2]*c19RecvNode
	c19RecvErr   error
)

func c19GetRecvNodes() ([2]*c19RecvNode, error) {
	c19RecvOnce.Do(func() {
		for i := range c19RecvNodes {
			reg := prometheus.NewRegistry()
			peer, err := cluster.Create(nopLog, reg, "127.0.0.1:0", "", nil, true,
				24*time.Hour, time.Hour, cluster.DefaultTCPTimeout, cluster.DefaultResolvePeersTimeout,
				cluster.DefaultProbeTimeout, time.Hour, nil, false, fmt.Sprintf("c19-recv-%d", i), "")
			if err != nil {
				c19RecvErr = err
				return
			}
			n := &c19RecvNode{peer: peer, d: peer.VerifDelegate(), silP: &c19Proxy{}, nflP: &c19Proxy{}}
			n.nflCh = peer.AddState("nfl", n.nflP, reg)
			n.silCh = peer.AddState("sil", n.silP, reg)
			c19RecvNodes[i] = n
		}
	})
	return c19RecvNodes, c19RecvErr
}

func (n *c19RecvNode) reset() error {
	reg := prometheus.NewRegistry()
	var err error
	if n.nfl, err = nflog.New(nflog.Options{Retention: 120 * time.Hour, Logger: nopLog, Metrics: reg}); err != nil {
		return err
	}
	n.nflP.set(n.nfl)
	n.nfl.SetBroadcast(n.nflCh.Broadcast)
	if n.sil, err = silence.New(silence.Options{Retention: 120 * time.Hour, Logger: nopLog, Metrics: reg}); err != nil {
		return err
	}
	n.silP.set(n.sil)
	n.sil.SetBroadcast(n.silCh.Broadcast)
	n.silencer = silence.NewSilencer(n.sil, nopLog, eventrecorder.NopRecorder())
	return nil
}

// drain empties the gossip queue of the node (nobody to gossip to) and returns
// how many broadcasts were waiting.
func (n *c19RecvNode) drain() (cnt int, panicked any) {
	defer func() { panicked = recover() }()
	for i := 0; i < 16; i++ {
		msgs := n.d.GetBroadcasts(0, 1<<30)
		if len(msgs) == 0 {
			break
		}
		if i == 0 {
			cnt = len(msgs)
		}
	}
	return cnt, nil
}

func (n *c19RecvNode) deliver(via string, b []byte) (panicked any) {
	defer func() { panicked = recover() }()
	if via == "notify" {
		n.d.NotifyMsg(b)
	} else {
		n.d.MergeRemoteState(b, false)
	}
	return nil
}

// ------------------------------------------------------------------ execute

type c19Want struct {
	sil    map[string]c19Sil
	ent    map[string]c19Ent
	exempt map[string]bool // outcome left free (a newer version was seen inside non-valid input)
}

func c19EntKey(g, r string, idx uint32) string { return fmt.Sprintf("%s|%s|%d", g, r, idx) }

func execC19Recv(sc c19RecvScenario) pbt.Result {
	res := c19ExecRecv(sc)
	seen := map[string]bool{}
	var cls []string
	for _, c := range res.Classes {
		if !seen[c] {
			seen[c] = true
			cls = append(cls, c)
		}
	}
	res.Classes = cls
	return res
}

func c19ExecRecv(sc c19RecvScenario) (res pbt.Result) {
	compat.InitFromFlags(nopLog, featurecontrol.NoopFlags{})
	nodes, err := c19GetRecvNodes()
	if err != nil {
		res.Class("env-error")
		return res
	}
	a, b := nodes[0], nodes[1]
	if err := a.reset(); err != nil {
		res.Fail("generator", "reset: %v", err)
		return res
	}
	if err := b.reset(); err != nil {
		res.Fail("generator", "reset: %v", err)
		return res
	}
	defer func() { a.drain(); b.drain() }()

	x := c19Enc{now: time.Now().Unix()}
	want := c19Want{sil: map[string]c19Sil{}, ent: map[string]c19Ent{}, exempt: map[string]bool{}}
	ctx := context.Background()
	foreignSilence := false         // a silence that is not one of the well-formed generated ones may have been taken
	var poisonIDs []string          // ids of decodable silences whose matchers do not compile
	position := map[string]string{} // item -> where it was delivered (for messages)
	failingBefore := map[string]bool{}

	foreignNewest := map[string]time.Time{} // id / entry key -> newest update time among decodable foreign versions seen so far

	poisoned := func() bool {
		for _, id := range poisonIDs {
			if got, _, err := a.sil.Query(ctx, silence.QIDs(id)); err == nil && len(got) > 0 {
				return true
			}
		}
		return false
	}

	// model: newest update wins, by updated_at / timestamp (whole seconds, ties only for identical content)
	apply := func(p c19Part, where string, afterFailing bool) {
		for _, s := range p.Sils {
			if prev, ok := want.sil[s.ID]; !ok || prev.Upd < s.Upd {
				want.sil[s.ID] = s
				position[s.ID] = where
				failingBefore[s.ID] = afterFailing
			}
		}
		for _, e := range p.Ents {
			k := c19EntKey(e.G, e.R, e.Idx)
			if prev, ok := want.ent[k]; !ok || prev.Ts < e.Ts {
				want.ent[k] = e
				position[k] = where
				failingBefore[k] = afterFailing
			}
		}
	}

	deliver := func(phase string, i int, d c19Delivery) {
		raw := x.delivery(d)
		clean := len(d.Parts) > 0 && len(d.Muts) == 0
		scan := c19Scan(d.Via, raw)
		if scan.decoded {
			res.NonTrivial = res.NonTrivial || phase == "hostile"
		}
		// what the harness knows must be merged
		validSil := map[string]bool{}
		if clean {
			failing := false
			for pi, p := range d.Parts {
				if d.Via == "notify" && pi > 0 {
					break
				}
				if c19ValidPart(p) {
					apply(p, fmt.Sprintf("%s delivery %d via %s part %d/%d", phase, i, d.Via, pi, len(d.Parts)), failing)
					for _, s := range p.Sils {
						validSil[s.ID] = true
						if s.Legacy {
							res.Class("legacy-matchers-encoding")
						}
					}
					if len(x.part(p).Data) > c19GossipLimit {
						res.Class("valid-payload-above-gossip-limit")
					}
					if failing {
						res.Class("valid-after-failing-part")
					}
				} else if p.Key == "sil" || p.Key == "nfl" {
					failing = true // may fail to merge
					if pi == 0 && len(d.Parts) > 1 {
						res.Class("malformed-part-first")
					}
				} else {
					res.Class("unknown-key")
				}
			}
		}
		// what else could have been taken from the bytes
		for _, m := range scan.sils {
			id := m.Silence.Id
			if validSil[id] {
				continue
			}
			foreignSilence = true
			if c19Uncompilable(m.Silence) {
				poisonIDs = append(poisonIDs, id)
			}
			// (a version whose matchers do not compile is malformed: it replaces nothing, however new it claims to be)
			if c19Uncompilable(m.Silence) {
				continue
			}
			if w, ok := want.sil[id]; ok && m.Silence.UpdatedAt.AsTime().After(x.ts(w.Upd).AsTime()) {
				want.exempt[id] = true
			}
			// ... or a well-formed version delivered LATER is older than this one (newest update wins)
			if t := m.Silence.UpdatedAt.AsTime(); t.After(foreignNewest[id]) {
				foreignNewest[id] = t
			}
		}
		for _, m := range scan.ents {
			k := c19EntKey(string(m.Entry.GroupKey), m.Entry.Receiver.GroupName, m.Entry.Receiver.Idx)
			if w, ok := want.ent[k]; ok && m.Entry.Timestamp.AsTime().After(x.ts(w.Ts).AsTime()) {
				want.exempt[k] = true
			}
			if t := m.Entry.Timestamp.AsTime(); t.After(foreignNewest[k]) {
				foreignNewest[k] = t
			}
		}
		for k := 0; k <= d.Times; k++ {
			if p := a.deliver(d.Via, raw); p != nil {
				res.Add(pbt.V("panic", "%s delivery %d (%s, %d bytes): panic: %v", phase, i, d.Via, len(raw), p).With("via", d.Via))
			}
		}
		if d.Times > 0 {
			res.Class("duplicate")
		}
	}

	probeSeq := 0
	check := func(phase string, n *c19RecvNode, mutes bool) {
		isPoisoned := poisoned()
		for id, s := range want.sil {
			if want.exempt[id] || foreignNewest[id].After(x.ts(s.Upd).AsTime()) {
				continue
			}
			got, _, err := n.sil.Query(ctx, silence.QIDs(id))
			exp := x.stored(s)
			if err != nil || len(got) != 1 || !proto.Equal(got[0], exp) {
				kind := "valid-update-not-merged"
				if position[id] != "" && position[id][:5] == "prior" && phase != "prior" {
					kind = "prior-state-changed"
				}
				if n == b {
					kind = "full-state-incomplete"
				}
				res.Add(pbt.V(kind, "after the %s phase: silence %s (%s) is not held as delivered: got %v err %v", phase, id, position[id], got, err).
					With("state", "sil").With("after_failing_part", failingBefore[id]).With("where", position[id]))
				continue
			}
			if !mutes || s.Start > 0 || s.End < 0 {
				continue
			}
			// an alert covered by a valid, active, stored silence is muted: once with the
			// label set seen before (cached verdict), once as a never-seen alert
			fresh := model.LabelSet{}
			seen := model.LabelSet{}
			for k, v := range s.Probe {
				fresh[model.LabelName(k)] = model.LabelValue(v)
				seen[model.LabelName(k)] = model.LabelValue(v)
			}
			probeSeq++
			fresh["c19probe"] = model.LabelValue(fmt.Sprintf("%s-%d", phase, probeSeq))
			for _, ls := range []model.LabelSet{seen, fresh} {
				if !n.silencer.Mutes(ctx, ls) {
					_, isFresh := ls["c19probe"]
					res.Add(pbt.V("valid-state-corrupted", "after the %s phase: alert %v is covered by the stored active silence %s but is not muted (fresh alert: %v)", phase, ls, id, isFresh).
						With("poisoned_by_uncompilable_regex", isPoisoned).With("fresh_alert", isFresh))
				}
			}
		}
		for k, e := range want.ent {
			if want.exempt[k] || foreignNewest[k].After(x.ts(e.Ts).AsTime()) {
				continue
			}
			exp := x.entry(e).Entry
			got, err := n.nfl.Query(nflog.QReceiver(exp.Receiver), nflog.QGroupKey(e.G))
			if err != nil || len(got) != 1 || !proto.Equal(got[0], exp) {
				kind := "valid-update-not-merged"
				if position[k] != "" && position[k][:5] == "prior" && phase != "prior" {
					kind = "prior-state-changed"
				}
				if n == b {
					kind = "full-state-incomplete"
				}
				res.Add(pbt.V(kind, "after the %s phase: log entry %s (%s) is not held as delivered: got %v err %v", phase, k, position[k], got, err).
					With("state", "nfl").With("after_failing_part", failingBefore[k]).With("where", position[k]))
			}
		}
		if mutes && !foreignSilence {
			if n.silencer.Mutes(ctx, model.LabelSet{"sid": "none", "alertname": "a", "c19probe": model.LabelValue(phase)}) {
				res.Add(pbt.V("control-muted", "after the %s phase: an alert that no delivered silence covers is muted", phase))
			}
		}
	}

	for i, d := range sc.Prior {
		deliver("prior", i, d)
	}
	check("prior", a, true)
	if len(res.Violations) > 0 {
		return res
	}
	for i, d := range sc.Hostile {
		deliver("hostile", i, d)
	}
	check("hostile", a, true)
	for i, d := range sc.After {
		deliver("after", i, d)
	}
	check("after", a, true)

	// full-state exchange, in process: what LocalState produces, merged by a fresh
	// instance, gives that instance everything this one holds
	var ls []byte
	func() {
		defer func() {
			if p := recover(); p != nil {
				res.Add(pbt.V("panic", "LocalState: panic: %v", p).With("via", "LocalState"))
			}
		}()
		ls = a.d.LocalState(true)
	}()
	if p := b.deliver("full", ls); p != nil {
		res.Add(pbt.V("panic", "MergeRemoteState(LocalState()): panic: %v", p).With("via", "full"))
	}
	check("exchange", b, false)

	if _, p := a.drain(); p != nil {
		res.Add(pbt.V("panic", "GetBroadcasts: panic: %v", p).With("via", "GetBroadcasts"))
	}
	if len(poisonIDs) > 0 {
		res.Class("uncompilable-matcher-delivered")
		if poisoned() {
			res.Class("uncompilable-matcher-stored(F9)")
		}
	}
	if len(want.exempt) > 0 {
		res.Excluded += len(want.exempt)
	}
	for _, d := range sc.Hostile {
		switch {
		case len(d.Parts) == 0:
			res.Class("raw-bytes")
		case len(d.Muts) > 0:
			res.Class("mutated-message")
		case d.Via == "full":
			res.Class("mixed-full-state")
		default:
			res.Class("single-part")
		}
	}
	return res
}

const c19ReceiveRule = "a fresh silences store and notification log behind the real delegate of a never-joined Peer; prior state S = 2-4 valid deliveries (NotifyMsg parts / MergeRemoteState full states; active, pending and expired silences, current and legacy matcher encoding, payloads below and above the gossip limit); then 1-5 hostile deliveries: arbitrary bytes, real messages truncated / bit-flipped / with inserted, deleted or overwritten bytes (message level and payload level), parts with unknown keys, full states of 2-5 parts mixing valid parts, unknown keys, malformed payloads, valid messages followed by garbage, payloads of the other state, empty payloads, duplicates and stale versions of S in generated order, each optionally delivered up to 4 times; then valid updates (new items, newer versions of S). Oracle: no panic; every item of S answers its query identically (unless the bytes contained a newer version of it: counted as excluded); every item of a well-formed part under a known key is held afterwards wherever the part stood; alerts covered by a held active silence are muted (cached and never-seen label set); an uncovered alert is not muted when no foreign silence was decodable from the input; LocalState merged into a second fresh instance reproduces everything. Non-trivial: at least one hostile delivery decoded to a Part with a key or a FullState with parts. 1 in 40 cases adds a protobuf-valid silence with an uncompilable matcher (finding F9, fixed), 1 in 8 a protobuf-valid NEWER version of a silence of S with an uncompilable matcher (malformed: it must replace nothing); accidental ones are recognised from the bytes."

func init() {
	// F9: Silences.Merge stores a silence whose matchers do not compile; every later
	// scan that reaches it errors and valid silences stop muting.
	pbt.RegisterSignature("c19-uncompilable-matcher-silence", func(v pbt.Violation) bool {
		return v.Kind == "valid-state-corrupted" && v.Facts["poisoned_by_uncompilable_regex"] == true
	})
}

func TestC19Receive(t *testing.T) {
	// every case builds fresh stores and registries: with the default GC target the
	// run spends more time in collector hand-offs than in the code under test
	defer debug.SetGCPercent(debug.SetGCPercent(800))
	if _, err := c19GetRecvNodes(); err != nil && !pbt.Replaying() {
		t.Fatalf("INCONCLUSIVE: cannot create the loopback peer: %v", err)
	}
	pbt.Run(t, pbt.Spec[c19RecvScenario]{
		Property: "C19", Name: "C19Receive", Rule: c19ReceiveRule,
		Gen: genC19Recv, Exec: execC19Recv,
	})
}

// FuzzC19Receive: coverage-guided bytes into NotifyMsg / MergeRemoteState of a
// node that holds a fixed valid state; same oracle as TestC19Receive.
func FuzzC19Receive(f *testing.F) {
	debug.SetGCPercent(800)
	if _, err := c19GetRecvNodes(); err != nil {
		f.Skipf("cannot create the loopback peer: %v", err)
	}
	base := c19RecvScenario{
		Prior: []c19Delivery{
			{Via: "notify", Parts: []c19Part{{Key: "sil", Sils: []c19Sil{{ID: "p0-fuzz", Sets: [][]c19M{{{T: 0, N: "sid", P: "p0-fuzz"}, {T: 1, N: "job", P: "web-.*"}}}, Start: -3600, End: 3600, Upd: -8000, Exp: 435600, Comment: 10, Probe: map[string]string{"sid": "p0-fuzz", "job": "web-1"}}}}}},
			{Via: "full", Parts: []c19Part{{Key: "nfl", Ents: []c19Ent{{G: "{}:{g=\"p\"}", R: "team-a", Ts: -900, Exp: 86400, NF: 3, NR: 1}}}}},
		},
		After: []c19Delivery{
			{Via: "notify", Parts: []c19Part{{Key: "nfl", Ents: []c19Ent{{G: "{}:{g=\"a\"}", R: "team-b", Idx: 1, Ts: -700, Exp: 86400, NF: 2}}}}},
			{Via: "full", Parts: []c19Part{{Key: "sil", Sils: []c19Sil{{ID: "a0-fuzz", Sets: [][]c19M{{{T: 0, N: "sid", P: "a0-fuzz"}}}, Start: -3600, End: 7200, Upd: -7500, Exp: 439200, Probe: map[string]string{"sid": "a0-fuzz"}}}}}},
		},
	}
	x := c19Enc{now: time.Now().Unix()}
	seedSil := c19Part{Key: "sil", Sils: []c19Sil{{ID: "seed-1", Sets: [][]c19M{{{T: 0, N: "sid", P: "seed-1"}, {T: 1, N: "job", P: "a.*"}}, {{T: 3, N: "x", P: "y+"}}}, Start: -3600, End: 3600, Upd: -8000, Exp: 435600, Comment: 20}}}
	seedEnt := c19Part{Key: "nfl", Ents: []c19Ent{{G: "{}:{g=\"s\"}", R: "team-a", Ts: -800, Exp: 86400, NF: 4, NR: 2}}}
	for _, d := range []c19Delivery{
		{Via: "notify", Parts: []c19Part{seedSil}}, {Via: "notify", Parts: []c19Part{seedEnt}},
		{Via: "full", Parts: []c19Part{seedSil, seedEnt}},
		{Via: "full", Parts: []c19Part{{Key: "sil", Junk: []byte{9, 1, 2}}, seedEnt, {Key: "zzz", Junk: []byte{1}}}},
		{Via: "notify", Parts: []c19Part{base.Prior[0].Parts[0]}},
	} {
		f.Add(d.Via == "full", x.delivery(d))
	}
	f.Add(false, []byte{})
	f.Fuzz(func(t *testing.T, full bool, data []byte) {
		sc := base
		via := "notify"
		if full {
			via = "full"
		}
		sc.Hostile = []c19Delivery{{Via: via, Raw: data}}
		res := execC19Recv(sc)
		for _, v := range res.Violations {
			if v.Kind == "valid-state-corrupted" && v.Facts["poisoned_by_uncompilable_regex"] == true {
				t.Skip("known finding F9 (uncompilable matcher stored): excluded from the fuzz search")
			}
		}
		for _, v := range res.Violations {
			t.Fatalf("[%s] %s", v.Kind, v.Message)
		}
	})
}
