package checks

import (
	"strings"
	"testing"
	"unicode/utf8"

	"pgregory.net/rapid"

	"github.com/prometheus/alertmanager/config"
	amcommoncfg "github.com/prometheus/alertmanager/config/common"
	"github.com/prometheus/alertmanager/dispatch"
	"github.com/prometheus/alertmanager/matcher/compat"
	"github.com/prometheus/alertmanager/matcher/parse"
	"github.com/prometheus/alertmanager/pkg/labels"

	"verif/harness/gen"
	"verif/harness/pbt"
	"verif/harness/ref"
)

// ---------------------------------------------------------------- round trip

type c16RTMatcher struct {
	Op    string `json:"op"`
	Name  string `json:"name"`
	Value string `json:"value"`
}

type c16RTScenario struct {
	Matchers []c16RTMatcher `json:"matchers"`
}

func genC16Name(t *rapid.T) string {
	switch rapid.IntRange(0, 3).Draw(t, "nameKind") {
	case 0:
		return rapid.StringMatching(`[a-zA-Z_][a-zA-Z0-9_]{0,6}`).Draw(t, "cname")
	case 1:
		// UTF-8 without reserved characters
		return rapid.StringOfN(rapid.SampledFrom([]rune{'a', 'Z', '0', '9', '_', ':', '.', '-', '/', '世', 'é', '🙂', '+', '@'}), 1, 6, -1).Draw(t, "uname")
	default:
		s := gen.Text(8).Filter(func(s string) bool { return s != "" && utf8.ValidString(s) }).Draw(t, "hname")
		return s
	}
}

func genC16RT(t *rapid.T) c16RTScenario {
	n := rapid.IntRange(1, 4).Draw(t, "n")
	var sc c16RTScenario
	for i := 0; i < n; i++ {
		m := c16RTMatcher{Op: rapid.SampledFrom(gen.Ops).Draw(t, "op"), Name: genC16Name(t)}
		if m.Op == "=" || m.Op == "!=" {
			m.Value = gen.Text(12).Filter(utf8.ValidString).Draw(t, "value")
		} else {
			m.Value = gen.Re(gen.HostileAlphabet, rapid.IntRange(0, 2).Draw(t, "depth")).Draw(t, "re").String()
		}
		sc.Matchers = append(sc.Matchers, m)
	}
	return sc
}

func sameMatcher(a *labels.Matcher, b c16RTMatcher) bool {
	return a != nil && a.Type == opType[b.Op] && a.Name == b.Name && a.Value == b.Value
}

func execC16RT(sc c16RTScenario) (res pbt.Result) {
	var ms labels.Matchers
	allClassic := true
	for _, m := range sc.Matchers {
		lm, err := labels.NewMatcher(opType[m.Op], m.Name, m.Value)
		if err != nil {
			// generator only produces compilable regexes
			res.Fail("generator", "NewMatcher(%q %s %q): %v", m.Name, m.Op, m.Value, err)
			return res
		}
		ms = append(ms, lm)
		if !classicName.MatchString(m.Name) {
			allClassic = false
		}
	}
	type single struct {
		mode string
		f    func(string) (*labels.Matcher, error)
	}
	singles := []single{
		{"parse.Matcher", parse.Matcher},
		{"compat-utf8", func(s string) (*labels.Matcher, error) { return compat.UTF8MatcherParser(nopLog)(s, "") }},
		{"compat-fallback", func(s string) (*labels.Matcher, error) { return compat.FallbackMatcherParser(nopLog)(s, "") }},
	}
	for i, lm := range ms {
		text := lm.String()
		ps := singles
		if classicName.MatchString(lm.Name) {
			ps = append(ps[:len(ps):len(ps)],
				single{"labels.ParseMatcher", labels.ParseMatcher},
				single{"compat-classic", func(s string) (*labels.Matcher, error) { return compat.ClassicMatcherParser(nopLog)(s, "") }})
		}
		for _, p := range ps {
			got, err := p.f(text)
			if err != nil || !sameMatcher(got, sc.Matchers[i]) {
				res.Add(pbt.V("roundtrip-single", "%s(%q) = %v, %v; want %+v", p.mode, text, got, err, sc.Matchers[i]).With("mode", p.mode))
			} else if got.Type == labels.MatchRegexp || got.Type == labels.MatchNotRegexp {
				// the parsed matcher must be usable (compiled)
				_ = got.Matches("x")
			}
		}
	}
	type list struct {
		mode string
		f    func(string) (labels.Matchers, error)
	}
	lists := []list{
		{"parse.Matchers", parse.Matchers},
		{"compat-utf8", func(s string) (labels.Matchers, error) { return compat.UTF8MatchersParser(nopLog)(s, "") }},
		{"compat-fallback", func(s string) (labels.Matchers, error) { return compat.FallbackMatchersParser(nopLog)(s, "") }},
	}
	if allClassic {
		lists = append(lists,
			list{"labels.ParseMatchers", func(s string) (labels.Matchers, error) { m, err := labels.ParseMatchers(s); return m, err }},
			list{"compat-classic", func(s string) (labels.Matchers, error) { return compat.ClassicMatchersParser(nopLog)(s, "") }})
	}
	text := ms.String()
	for _, p := range lists {
		got, err := p.f(text)
		ok := err == nil && len(got) == len(sc.Matchers)
		if ok {
			for i := range got {
				ok = ok && sameMatcher(got[i], sc.Matchers[i])
			}
		}
		if !ok {
			res.Add(pbt.V("roundtrip-list", "%s(%q) = %v, %v; want %+v", p.mode, text, got, err, sc.Matchers).With("mode", p.mode))
		}
	}
	hostile := false
	for _, m := range sc.Matchers {
		if strings.ContainsAny(m.Value, "\"\\\n{},") || strings.ContainsAny(m.Name, "\"\\\n{},= ") || !classicName.MatchString(m.Name) {
			hostile = true
		}
	}
	res.NonTrivial = hostile
	if allClassic {
		res.Class("all-classic-names")
	}
	if hostile {
		res.Class("hostile-chars")
	}
	if len(sc.Matchers) > 1 {
		res.Class("list>1")
	}
	return res
}

func TestC16RoundTrip(t *testing.T) {
	pbt.Run(t, pbt.Spec[c16RTScenario]{
		Property: "C16", Name: "C16RoundTrip",
		Rule: "1-4 generated matchers (names: classic / UTF-8 / with reserved characters; values: arbitrary valid UTF-8 biased to quotes, backslashes, newlines, braces, commas; regexes from a grammar of compilable patterns); print with String(), parse with parse.Matcher(s), compat utf8 + fallback (+ classic parser when names are classic). Non-trivial: a name or value contains a reserved / escaped character or the name is not classic. Distinct by scenario digest.",
		Gen:  genC16RT, Exec: execC16RT,
	})
}

// -------------------------------------------------------------- differential

type c16DiffScenario struct {
	Input []byte `json:"input"`
}

var c16Frags = []string{"{", "}", ",", "=", "!=", "=~", "!~", "\"", "\\", "\\\"", "\\n", " ", "foo", "bar", "a", "_b1", "0", "世", "\n", "\t", "'", "`", ".*", "\\d", "\xff", "(", ")", "[", "a|b", "🙂", "\\u00e9", "\\x41", ":", "~", "!",
	// whitespace the classic grammar's \s does not cover (and some it does): the two parsers trim differently
	"\u00a0", "\u0085", "\v", "\f", "\r", "\u2028", "\u3000", "\u1680", "\u202f"}

var c16Spaces = []string{" ", "\t", "\n", "\u00a0", "\u0085", "\v", "\f", "\r", "\u2028", "\u2029", "\u3000", "\u1680", "\u2003", "\u202f", "\u205f", "\ufeff", "\u200b"}

func genC16Diff(t *rapid.T) c16DiffScenario {
	switch rapid.IntRange(0, 4).Draw(t, "kind") {
	case 0:
		return c16DiffScenario{Input: rapid.SliceOfN(rapid.Byte(), 0, 24).Draw(t, "bytes")}
	case 4:
		// one matcher as a user types it (no braces, value quoted or not), with white space of any kind around it
		// and around the operator
		sp := func(l string) string {
			var sb strings.Builder
			for i, n := 0, rapid.IntRange(0, 2).Draw(t, l+"N"); i < n; i++ {
				sb.WriteString(rapid.SampledFrom(c16Spaces).Draw(t, l))
			}
			return sb.String()
		}
		val := rapid.SampledFrom([]string{"bar", "bar baz", "", "b", "\"bar\"", "\"bar \"", "世", "a|b", ".*"}).Draw(t, "val")
		return c16DiffScenario{Input: []byte(sp("lead") + rapid.SampledFrom([]string{"foo", "a", "_b1", "世"}).Draw(t, "name") + sp("preOp") + rapid.SampledFrom(gen.Ops).Draw(t, "op") + sp("postOp") + val + sp("trail"))}
	case 1:
		// mutate a printed matcher list
		sc := genC16RT(t)
		var ms labels.Matchers
		for _, m := range sc.Matchers {
			if lm, err := labels.NewMatcher(opType[m.Op], m.Name, m.Value); err == nil {
				ms = append(ms, lm)
			}
		}
		s := []byte(ms.String())
		if rapid.Bool().Draw(t, "strip") && len(s) >= 2 {
			s = s[1 : len(s)-1]
		}
		nmut := rapid.IntRange(0, 3).Draw(t, "nmut")
		for i := 0; i < nmut && len(s) > 0; i++ {
			p := rapid.IntRange(0, len(s)-1).Draw(t, "pos")
			switch rapid.IntRange(0, 2).Draw(t, "mut") {
			case 0:
				s = append(s[:p:p], s[p+1:]...)
			case 1:
				f := rapid.SampledFrom(c16Frags).Draw(t, "frag")
				s = append(s[:p:p], append([]byte(f), s[p:]...)...)
			default:
				s[p] = rapid.Byte().Draw(t, "b")
			}
		}
		return c16DiffScenario{Input: s}
	default:
		n := rapid.IntRange(0, 10).Draw(t, "n")
		var sb strings.Builder
		for i := 0; i < n; i++ {
			sb.WriteString(rapid.SampledFrom(c16Frags).Draw(t, "frag"))
		}
		return c16DiffScenario{Input: []byte(sb.String())}
	}
}

func eqM(a, b *labels.Matcher) bool {
	if a == nil || b == nil {
		return a == b
	}
	return a.Type == b.Type && a.Name == b.Name && a.Value == b.Value
}

func eqMs(a, b []*labels.Matcher) bool {
	if len(a) != len(b) {
		return false
	}
	for i := range a {
		if !eqM(a[i], b[i]) {
			return false
		}
	}
	return true
}

func isParserPanic(err error) bool {
	return err != nil && strings.Contains(err.Error(), "parser panic")
}

func execC16Diff(sc c16DiffScenario) (res pbt.Result) {
	in := string(sc.Input)
	// lists
	n, nErr := parse.Matchers(in)
	c, cErr := labels.ParseMatchers(in)
	f, fErr := compat.FallbackMatchersParser(nopLog)(in, "")
	u, uErr := compat.UTF8MatchersParser(nopLog)(in, "")
	k, kErr := compat.ClassicMatchersParser(nopLog)(in, "")
	for _, e := range []error{nErr, fErr, uErr} {
		if isParserPanic(e) {
			res.Fail("parser-panic", "input %q: %v", in, e)
		}
	}
	if (uErr == nil) != (nErr == nil) || (uErr == nil && !eqMs(u, n)) {
		res.Fail("utf8-mode", "input %q: utf8 mode %v,%v but parse.Matchers %v,%v", in, u, uErr, n, nErr)
	}
	if (kErr == nil) != (cErr == nil) || (kErr == nil && !eqMs(k, c)) {
		res.Fail("classic-mode", "input %q: classic mode %v,%v but labels.ParseMatchers %v,%v", in, k, kErr, c, cErr)
	}
	switch {
	case nErr != nil && cErr != nil:
		if fErr == nil {
			res.Fail("fallback-accepts-invalid", "input %q rejected by both parsers but fallback returned %v", in, f)
		}
	case cErr == nil:
		// accepted by classic (and maybe by both): fallback yields the classic result
		// (if both accept and agree, that is also the common result)
		if fErr != nil || !eqMs(f, c) {
			res.Fail("fallback-not-classic", "input %q: classic %v (utf8 err=%v) but fallback %v,%v", in, labels.Matchers(c), nErr, f, fErr)
		}
	default:
		if fErr != nil || !eqMs(f, n) {
			res.Fail("fallback-not-utf8", "input %q: only UTF-8 parser accepts (%v) but fallback %v,%v", in, n, f, fErr)
		}
	}
	// every accepted matcher must be usable and valid
	for _, l := range [][]*labels.Matcher{n, c, f} {
		for _, m := range l {
			if m == nil {
				res.Fail("nil-matcher", "input %q produced a nil matcher", in)
				continue
			}
			_ = m.Matches("probe")
			_ = m.String()
		}
	}
	// singles, outside the brace guard
	brace := strings.HasPrefix(in, "{") || strings.HasSuffix(in, "}")
	n1, n1Err := parse.Matcher(in)
	c1, c1Err := labels.ParseMatcher(in)
	f1, f1Err := compat.FallbackMatcherParser(nopLog)(in, "")
	u1, u1Err := compat.UTF8MatcherParser(nopLog)(in, "")
	if isParserPanic(n1Err) || isParserPanic(f1Err) || isParserPanic(u1Err) {
		res.Fail("parser-panic", "input %q: %v %v %v", in, n1Err, f1Err, u1Err)
	}
	if brace {
		// compat rejects these up front by design (cli acceptance tests assert the message)
		res.Class("brace-guard")
	} else {
		if (u1Err == nil) != (n1Err == nil) || (u1Err == nil && !eqM(u1, n1)) {
			res.Fail("utf8-mode-single", "input %q: utf8 mode %v,%v but parse.Matcher %v,%v", in, u1, u1Err, n1, n1Err)
		}
		switch {
		case n1Err != nil && c1Err != nil:
			if f1Err == nil {
				res.Fail("fallback-accepts-invalid", "single input %q rejected by both but fallback returned %v", in, f1)
			}
		case c1Err == nil:
			if f1Err != nil || !eqM(f1, c1) {
				res.Fail("fallback-not-classic", "single input %q: classic %v (utf8 err=%v) but fallback %v,%v", in, c1, n1Err, f1, f1Err)
			}
		default:
			if f1Err != nil || !eqM(f1, n1) {
				res.Fail("fallback-not-utf8", "single input %q: only UTF-8 parser accepts (%v) but fallback %v,%v", in, n1, f1, f1Err)
			}
		}
	}
	switch {
	case nErr == nil && cErr == nil && eqMs(n, c):
		res.Class("both-agree")
	case nErr == nil && cErr == nil:
		res.Class("both-disagree")
	case cErr == nil:
		res.Class("classic-only")
	case nErr == nil:
		res.Class("utf8-only")
	default:
		res.Class("none")
	}
	res.NonTrivial = (nErr == nil || cErr == nil) && (len(n) > 0 || len(c) > 0)
	res.Sample = map[string]any{"input": in}
	return res
}

func TestC16Differential(t *testing.T) {
	pbt.Run(t, pbt.Spec[c16DiffScenario]{
		Property: "C16", Name: "C16Differential",
		Rule: "arbitrary byte strings, mutated printed matcher lists and token-fragment concatenations fed to parse.Matchers, labels.ParseMatchers and the fallback/utf8/classic compat modes (list and single-matcher entry points). Non-trivial: at least one parser accepts and yields >=1 matcher. Distinct by input digest.",
		Gen:  genC16Diff, Exec: execC16Diff,
	})
}

// ----------------------------------------------------------------- semantics

type c16SemScenario struct {
	Sets      [][]ref.Matcher     `json:"sets"`
	LabelSets []map[string]string `json:"label_sets"`
	Hostile   bool                `json:"hostile"`
}

func genHostileMatcher(t *rapid.T, names []string) ref.Matcher {
	m := ref.Matcher{Op: rapid.SampledFrom(gen.Ops).Draw(t, "op"), Name: rapid.SampledFrom(names).Draw(t, "name")}
	if m.Op == "=" || m.Op == "!=" {
		m.Value = gen.Text(4).Filter(utf8.ValidString).Draw(t, "value")
	} else {
		m.Re = gen.Re(gen.HostileAlphabet, rapid.IntRange(0, 2).Draw(t, "depth")).Draw(t, "re")
	}
	return m
}

func genC16Sem(t *rapid.T) c16SemScenario {
	var sc c16SemScenario
	sc.Hostile = rapid.Bool().Draw(t, "hostile")
	nsets := rapid.IntRange(1, 3).Draw(t, "nsets")
	names := gen.UniNames
	if sc.Hostile {
		names = []string{"a", "b", "名", "with space"}
	}
	for i := 0; i < nsets; i++ {
		n := rapid.IntRange(1, 3).Draw(t, "n")
		var set []ref.Matcher
		for j := 0; j < n; j++ {
			if sc.Hostile {
				set = append(set, genHostileMatcher(t, names))
			} else {
				set = append(set, gen.UniMatcher().Draw(t, "m"))
			}
		}
		sc.Sets = append(sc.Sets, set)
	}
	nl := rapid.IntRange(1, 6).Draw(t, "nl")
	for i := 0; i < nl; i++ {
		if sc.Hostile {
			ls := map[string]string{}
			for _, n := range names {
				if rapid.Bool().Draw(t, "present") {
					// values near the matcher values: pick a literal from a matcher or random text
					var v string
					if rapid.Bool().Draw(t, "near") {
						set := sc.Sets[rapid.IntRange(0, len(sc.Sets)-1).Draw(t, "si")]
						m := set[rapid.IntRange(0, len(set)-1).Draw(t, "mi")]
						v = m.Value
						if m.Re != nil {
							v = sampleFromRe(t, m.Re)
						}
					} else {
						v = gen.Text(4).Filter(utf8.ValidString).Draw(t, "lv")
					}
					if v != "" {
						ls[n] = v
					}
				}
			}
			sc.LabelSets = append(sc.LabelSets, ls)
		} else {
			sc.LabelSets = append(sc.LabelSets, gen.UniLabelSet().Draw(t, "ls"))
		}
	}
	return sc
}

// sampleFromRe draws a string that is likely (not certainly) in the language.
func sampleFromRe(t *rapid.T, r *ref.Re) string {
	switch r.Op {
	case "lit", "esc":
		return r.Lit
	case "perl":
		return string(rapid.SampledFrom([]rune{'a', 'Z', '7', '_', ' ', '\t', '-', 'é'}).Draw(t, "perlr"))
	case "any":
		return string(rapid.SampledFrom(gen.HostileAlphabet).Draw(t, "anyr"))
	case "class":
		rs := []rune(r.Lit)
		if r.Neg {
			return string(rapid.SampledFrom(gen.HostileAlphabet).Draw(t, "negr"))
		}
		return string(rs[rapid.IntRange(0, len(rs)-1).Draw(t, "ci")])
	case "cat":
		var sb strings.Builder
		for _, s := range r.Subs {
			sb.WriteString(sampleFromRe(t, s))
		}
		return sb.String()
	case "alt":
		return sampleFromRe(t, r.Subs[rapid.IntRange(0, len(r.Subs)-1).Draw(t, "ai")])
	case "group":
		return sampleFromRe(t, r.Subs[0])
	case "fold", "foldall":
		return gen.FlipCase(t, sampleFromRe(t, r.Subs[0]))
	case "opt":
		if rapid.Bool().Draw(t, "opt") {
			return sampleFromRe(t, r.Subs[0])
		}
		return ""
	case "star", "plus":
		n := rapid.IntRange(0, 2).Draw(t, "rep")
		if r.Op == "plus" {
			n++
		}
		var sb strings.Builder
		for i := 0; i < n; i++ {
			sb.WriteString(sampleFromRe(t, r.Subs[0]))
		}
		return sb.String()
	}
	return ""
}

func execC16Sem(sc c16SemScenario) (res pbt.Result) {
	var mset labels.MatcherSet
	var compiled []labels.Matchers
	for _, set := range sc.Sets {
		ms, err := toLabelsMatchers(set)
		if err != nil {
			res.Fail("generator", "%v", err)
			return res
		}
		compiled = append(compiled, ms)
		mset = append(mset, &ms)
	}
	trueCnt, falseCnt := 0, 0
	for _, lm := range sc.LabelSets {
		ls := toLabelSet(lm)
		for i, set := range sc.Sets {
			want := ref.MatchAll(set, lm)
			got := compiled[i].Matches(ls)
			if got != want {
				res.Add(pbt.V("match-semantics", "Matchers %v on %v: got %v want %v", compiled[i], ls, got, want))
			}
			// after a print/parse round trip the meaning is the same
			if rt, err := parse.Matchers(compiled[i].String()); err == nil {
				if rt.Matches(ls) != want {
					res.Add(pbt.V("match-semantics-reparsed", "reparsed %v on %v: got %v want %v", rt, ls, !want, want))
				}
			}
			// consumer: routing tree
			child := &config.Route{Receiver: "child", Matchers: amcommoncfg.Matchers(compiled[i])}
			root := dispatch.NewRoute(&config.Route{Receiver: "root", Routes: []*config.Route{child}}, nil)
			rs := root.Match(ls)
			gotRoute := len(rs) == 1 && rs[0].RouteOpts.Receiver == "child"
			if gotRoute != want {
				res.Add(pbt.V("route-semantics", "route with %v on %v: child chosen=%v want %v", compiled[i], ls, gotRoute, want))
			}
			if want {
				trueCnt++
			} else {
				falseCnt++
			}
		}
		wantAny := ref.MatchAny(sc.Sets, lm)
		if got := mset.Matches(ls); got != wantAny {
			res.Add(pbt.V("matcherset-semantics", "MatcherSet on %v: got %v want %v", ls, got, wantAny))
		}
	}
	res.NonTrivial = trueCnt > 0 && falseCnt > 0
	if sc.Hostile {
		res.Class("hostile")
	} else {
		res.Class("universe")
	}
	if trueCnt > 0 {
		res.Class("some-match")
	}
	return res
}

func TestC16Semantics(t *testing.T) {
	pbt.Run(t, pbt.Spec[c16SemScenario]{
		Property: "C16", Name: "C16Semantics",
		Rule: "1-3 OR-ed sets of 1-3 matchers (all four operators; regexes as ASTs over a small or hostile alphabet incl. newline, quotes, metacharacters) evaluated on 1-6 label sets (absent labels, values sampled from the regex language or random); oracle = independent backtracking whole-string matcher + conjunction/disjunction with missing label = \"\"; consumers checked: labels.Matchers, labels.MatcherSet, re-parsed printed form, dispatch.Route.Match. Non-trivial: the case has both a matching and a non-matching (set, label set) pair.",
		Gen:  genC16Sem, Exec: execC16Sem,
	})
}
