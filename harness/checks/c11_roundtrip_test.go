package checks

// C11RoundTrip — "Writing a snapshot and loading it back reproduces every
// unexpired silence and log entry with identical content (ids, matchers incl.
// multiple sets, times, annotations, receiver data), so silences keep muting
// and already-sent notifications are not repeated after a restart", and "never
// refuses to start because of a file it wrote itself", on states reached
// through the real API (Set/Expire/Merge/GC, Log/Merge/GC, the notify
// pipeline's DedupStage+SetNotifiesStage) plus hand-written old-format files.

import (
	"bytes"
	"errors"
	"fmt"
	"os"
	"path/filepath"
	"testing"
	"time"

	"google.golang.org/protobuf/encoding/protodelim"
	"google.golang.org/protobuf/proto"
	"pgregory.net/rapid"

	"github.com/prometheus/alertmanager/eventrecorder"
	"github.com/prometheus/alertmanager/nflog"
	"github.com/prometheus/alertmanager/nflog/nflogpb"
	"github.com/prometheus/alertmanager/notify"
	"github.com/prometheus/alertmanager/silence"
	"github.com/prometheus/alertmanager/silence/silencepb"

	"context"

	"verif/harness/pbt"
	"verif/harness/ref"
)

type c11DedupProbe struct {
	Key          int   `json:"key"`
	Alerts       []int `json:"alerts"`
	ResolvedN    int   `json:"resolved_n"`
	RepeatSec    int64 `json:"repeat_sec"`
	SendResolved bool  `json:"send_resolved"`
}

type c11RTScenario struct {
	RetentionSec int64               `json:"retention_sec"`
	Initial      []c11Sil            `json:"initial,omitempty"`
	Ops          []c11SilOp          `json:"ops,omitempty"`
	Bulk         int                 `json:"bulk,omitempty"`
	Probes       []map[string]string `json:"probes,omitempty"`
	ProbeDts     []int64             `json:"probe_dts"`
	ViaFile      bool                `json:"via_file,omitempty"`
	// ReloadMode: the matcher parser mode of the process that loads the snapshot ("" = the same: fallback; "classic" /
	// "utf8": --enable-feature changed between the two process lives). The stored silences are data: every mode loads them all.
	ReloadMode string `json:"reload_mode,omitempty"`

	NfU         c11NfUniverse   `json:"nf_universe"`
	NfInitial   []c11NfEntry    `json:"nf_initial,omitempty"`
	NfOps       []c11NfOp       `json:"nf_ops,omitempty"`
	NfBulk      int             `json:"nf_bulk,omitempty"`
	DedupProbes []c11DedupProbe `json:"dedup_probes,omitempty"`
}

func c11GenBulk(t *rapid.T, label string) int {
	switch k := rapid.IntRange(0, 19).Draw(t, label+"Class"); {
	case k < 13:
		return 0
	case k < 17:
		return rapid.IntRange(1, 30).Draw(t, label)
	case k < 19 || !pbt.Thorough():
		return rapid.IntRange(31, 300).Draw(t, label)
	default:
		return rapid.IntRange(301, 4000).Draw(t, label)
	}
}

func c11GenRT(t *rapid.T) c11RTScenario {
	sc := c11RTScenario{
		RetentionSec: rapid.SampledFrom([]int64{3600, 7200, 432000}).Draw(t, "retention"),
		ViaFile:      rapid.IntRange(0, 3).Draw(t, "viaFile") == 0,
		ReloadMode:   rapid.SampledFrom([]string{"", "", "", "classic", "utf8"}).Draw(t, "reloadMode"),
		ProbeDts:     []int64{0, 3700, 3700, 20000},
	}
	empty := rapid.IntRange(0, 30).Draw(t, "empty") == 0
	if !empty {
		ni := rapid.IntRange(0, 4).Draw(t, "ninit")
		for i := 0; i < ni; i++ {
			sc.Initial = append(sc.Initial, c11GenWireSil(t, fmt.Sprintf("i%d", i), true))
		}
		no := rapid.IntRange(0, 12).Draw(t, "nops")
		mergeSets := map[int][][]ref.Matcher{}
		mergeID := func() (string, [][]ref.Matcher) {
			k := rapid.IntRange(0, 2).Draw(t, "mid")
			if mergeSets[k] == nil {
				mergeSets[k] = c11GenSets(t, false)
			}
			return fmt.Sprintf("m%d", k), mergeSets[k]
		}
		for i := 0; i < no; i++ {
			sc.Ops = append(sc.Ops, c11GenSilOp(t, true, mergeID))
		}
		sc.Bulk = c11GenBulk(t, "bulk")
	}
	// probes near the hostile matchers: label values sampled from the matchers
	collect := func(sets [][]ref.Matcher) {
		for _, set := range sets {
			if rapid.IntRange(0, 1).Draw(t, "probeSet") == 0 {
				continue
			}
			ls := map[string]string{}
			for _, m := range set {
				v := m.Value
				if m.Re != nil {
					v = sampleFromRe(t, m.Re)
				}
				if v != "" {
					ls[m.Name] = v
				}
			}
			sc.Probes = append(sc.Probes, ls)
		}
	}
	for _, s := range sc.Initial {
		collect(s.Sets)
	}
	for _, op := range sc.Ops {
		if op.Sil != nil {
			collect(op.Sil.Sets)
		}
	}
	if len(sc.Probes) > 12 {
		sc.Probes = sc.Probes[:12]
	}

	sc.NfU = c11GenNfUniverse(t)
	if !empty {
		seen := map[int]bool{}
		ni := rapid.IntRange(0, 3).Draw(t, "nfninit")
		for i := 0; i < ni; i++ {
			e := c11GenWireEntry(t, &sc.NfU, true)
			if seen[e.Key] { // one record per key in a file (a writer never emits two)
				continue
			}
			seen[e.Key] = true
			sc.NfInitial = append(sc.NfInitial, e)
		}
		no := rapid.IntRange(0, 10).Draw(t, "nfnops")
		for i := 0; i < no; i++ {
			sc.NfOps = append(sc.NfOps, c11GenNfOp(t, &sc.NfU, true))
		}
		sc.NfBulk = c11GenBulk(t, "nfbulk")
	}
	np := rapid.IntRange(1, 6).Draw(t, "ndedup")
	for i := 0; i < np; i++ {
		idx := rapid.SliceOfNDistinct(rapid.IntRange(0, c11NAlerts-1), 0, 4, rapid.ID[int]).Draw(t, "palerts")
		sc.DedupProbes = append(sc.DedupProbes, c11DedupProbe{
			Key: rapid.IntRange(0, len(sc.NfU.Keys)-1).Draw(t, "pkey"), Alerts: idx,
			ResolvedN:    rapid.SampledFrom([]int{0, 0, 1, 2}).Draw(t, "pres") % (len(idx) + 1),
			RepeatSec:    rapid.SampledFrom([]int64{60, 1800, 3600, 14400}).Draw(t, "prepeat"),
			SendResolved: rapid.Bool().Draw(t, "psr"),
		})
	}
	return sc
}

func c11LoadRefused(store string, err error, size int, maxRec int) pbt.Violation {
	return pbt.V("load-refused", "%s: a snapshot written by Snapshot() (%d bytes) is refused by the loader: %v", store, size, err).
		With("store", store).With("error", err.Error()).With("max_record_bytes", maxRec).
		With("size_limit", c11IsSizeLimit(err))
}

func c11MaxRecord(b []byte) int {
	ends, _, _ := c11Frames(b)
	prev, mx := 0, 0
	for _, e := range ends {
		if e-prev > mx {
			mx = e - prev
		}
		prev = e
	}
	return mx
}

func c11ExecRT(sc c11RTScenario) (res pbt.Result) {
	if p := c11Bubble(func() {
		c11SetMode()
		c11RTSilences(&sc, &res)
		c11RTNflog(&sc, &res)
	}); p != nil {
		res.Add(pbt.V("panic", "panic while building / snapshotting / loading: %v", p))
	}
	return res
}

func c11RTSilences(sc *c11RTScenario, res *pbt.Result) {
	base := time.Now()
	ret := time.Duration(sc.RetentionSec) * time.Second
	ctx := context.Background()

	var init []byte
	if len(sc.Initial) > 0 {
		init = c11SilFile(base, sc.Initial)
	}
	s1, err := c11NewSilences(ret, init, "")
	if err != nil {
		res.Add(pbt.V("old-format-refused", "a snapshot in a format written by earlier versions is refused: %v", err))
		return
	}
	ignore := map[string]bool{}
	wire := map[string][]*c11Sil{} // explicit id -> records supplied under that id
	if len(sc.Initial) > 0 {
		q0, err := c11QuerySil(s1)
		if err != nil {
			res.Add(pbt.V("query-error", "Query after loading the initial file: %v", err))
			return
		}
		for i := range sc.Initial {
			r := &sc.Initial[i]
			wire[r.ID] = append(wire[r.ID], r)
			if r.ExpOff < 0 {
				ignore[r.ID] = true // past its expiry: the statement only speaks about unexpired ones
				continue
			}
			got, ok := q0[r.ID]
			if !ok || !proto.Equal(got, r.c11Expected(base)) {
				res.Add(pbt.V("old-format-upgrade", "initial record %q (format %s) loads as %s, want %s", r.ID, r.Format, c11Short(got), c11Short(r.c11Expected(base))).
					With("format", r.Format))
			}
		}
	}
	tr := &c11SilTrack{}
	c11ApplySilOps(s1, base, sc.Ops, tr, time.Sleep)
	for _, op := range sc.Ops {
		if op.Kind == "merge" {
			wire[op.Sil.ID] = append(wire[op.Sil.ID], op.Sil)
		}
	}
	for i := 0; i < sc.Bulk; i++ {
		sets := [][]ref.Matcher{{{Op: "=", Name: "a", Value: fmt.Sprintf("bulk%d", i)}}}
		arg := (&c11Sil{Sets: sets, EndOff: 7200 + int64(i), Comment: "bulk"}).c11SetArg(base)
		if err := s1.Set(ctx, arg); err != nil {
			tr.errs = append(tr.errs, fmt.Sprintf("bulk set: %v", err))
			break
		}
		tr.sets[arg.Id] = sets
	}
	if len(tr.errs) > 0 {
		res.Fail("generator", "unexpected API errors while building the state: %s", c11Describe(tr.errs))
		return
	}
	time.Sleep(500 * time.Millisecond) // probes and comparisons never sit on a second boundary

	q1, err := c11QuerySil(s1)
	if err != nil {
		res.Add(pbt.V("query-error", "Query on the original store: %v", err))
		return
	}
	// reference matcher sets of every silence in the state
	sets := map[string][][]ref.Matcher{}
	multi, oldFmt := false, false
	for id, sil := range q1 {
		if len(sil.MatcherSets) >= 2 {
			multi = true
		}
		if rs, ok := tr.sets[id]; ok {
			sets[id] = rs
			continue
		}
		found := false
		for _, r := range wire[id] {
			if proto.Equal(&silencepb.Silence{MatcherSets: sil.MatcherSets}, &silencepb.Silence{MatcherSets: c11PbSets(r.Sets)}) {
				sets[id], found = r.Sets, true
				if r.Format != "new" && !ignore[id] {
					oldFmt = true
				}
				break
			}
		}
		if !found && !ignore[id] {
			res.Add(pbt.V("matchers-not-preserved", "silence %q holds matcher sets %s which no record supplied under that id has", id, c11Short(sil)))
			return
		}
		if !found {
			delete(q1, id)
		}
	}

	var buf bytes.Buffer
	n, err := s1.Snapshot(&buf)
	if err != nil {
		res.Add(pbt.V("snapshot-error", "Snapshot of a reachable silence state fails: %v", err))
		return
	}
	if int(n) != buf.Len() {
		res.Add(pbt.V("snapshot-size", "Snapshot reports %d bytes, wrote %d", n, buf.Len()))
	}
	snap := buf.Bytes()
	load := func(b []byte, what string) (*silence.Silences, map[string]*silencepb.Silence, bool) {
		var s *silence.Silences
		var err error
		if sc.ReloadMode != "" {
			if merr := c13SetMode(sc.ReloadMode); merr != nil {
				panic(merr)
			}
			defer c11SetMode()
		}
		if sc.ViaFile {
			dir, derr := os.MkdirTemp("", "c11rt")
			if derr != nil {
				panic(derr)
			}
			defer os.RemoveAll(dir)
			f := filepath.Join(dir, "silences")
			if werr := os.WriteFile(f, b, 0o644); werr != nil {
				panic(werr)
			}
			s, err = c11NewSilences(ret, nil, f)
		} else {
			s, err = c11NewSilences(ret, b, "")
		}
		if err != nil {
			res.Add(c11LoadRefused("silences("+what+")", err, len(b), c11MaxRecord(b)))
			return nil, nil, false
		}
		q, err := c11QuerySil(s)
		if err != nil {
			res.Add(pbt.V("query-error", "Query on the %s store: %v", what, err))
			return nil, nil, false
		}
		return s, q, true
	}
	s2, q2, ok := load(snap, "reloaded")
	if !ok {
		return
	}
	if d := c11DiffSil(q1, q2, ignore); d != "" {
		res.Add(pbt.V("roundtrip-silence", "state after Snapshot+load differs: %s", d))
	}
	// a second generation: the reloaded store's own snapshot
	buf.Reset()
	if _, err := s2.Snapshot(&buf); err != nil {
		res.Add(pbt.V("snapshot-error", "Snapshot of a reloaded silence state fails: %v", err))
	} else if _, q3, ok := load(buf.Bytes(), "second-generation"); ok {
		if d := c11DiffSil(q2, q3, ignore); d != "" {
			res.Add(pbt.V("roundtrip-silence", "second generation differs: %s", d))
		}
	}

	// "so silences keep muting"
	probes := append(c11UniverseProbes(), sc.Probes...)
	if len(q1) > 400 {
		probes = append(probes[:12:12], sc.Probes...)
	}
	for i := 0; i < sc.Bulk && i < 3; i++ {
		probes = append(probes, map[string]string{"a": fmt.Sprintf("bulk%d", i), "b": "y"})
	}
	m1, m2 := silence.NewSilencer(s1, nopLog, eventrecorder.NopRecorder()), silence.NewSilencer(s2, nopLog, eventrecorder.NopRecorder())
	muted, unmuted := 0, 0
	for _, dt := range sc.ProbeDts {
		time.Sleep(time.Duration(dt) * time.Second)
		now := time.Now()
		for _, p := range probes {
			ls := toLabelSet(p)
			a, b := m1.Mutes(ctx, ls), m2.Mutes(ctx, ls)
			want, known := c11RefMutes(q1, sets, p, now)
			if a != b {
				res.Add(pbt.V("mutes-differs-after-reload", "at +%v alert %v: original store mutes=%v, reloaded store mutes=%v", now.Sub(base), p, a, b))
			} else if known && b != want {
				res.Add(pbt.V("mutes-after-reload", "at +%v alert %v: reloaded store mutes=%v, the silences' matchers and intervals say %v", now.Sub(base), p, b, want))
			}
			if b {
				muted++
			} else {
				unmuted++
			}
		}
	}

	// classes / non-triviality
	res.NonTrivial = multi || oldFmt
	if multi {
		res.Class("sil:multi-set")
	}
	if oldFmt {
		res.Class("sil:old-format-in-state")
	}
	for _, r := range sc.Initial {
		if r.Format == "comments" {
			res.Class("sil:comments-list-format")
			break
		}
	}
	for id := range ignore {
		if _, ok := q1[id]; ok {
			res.Class("sil:past-expiry-in-state")
			break
		}
	}
	var ended, ann, utf, emptyC, recv bool
	for _, sil := range q1 {
		ended = ended || sil.EndsAt.AsTime().Before(base)
		ann = ann || len(sil.Annotations) > 0
		emptyC = emptyC || sil.Comment == ""
		recv = recv || len(sil.ReceiverMatcherSets) > 0
		for _, ms := range sil.MatcherSets {
			for _, m := range ms.Matchers {
				utf = utf || !classicName.MatchString(m.Name)
			}
		}
	}
	for k, v := range map[string]bool{"sil:ended-retained": ended, "sil:annotations": ann, "sil:utf8-name": utf, "sil:empty-comment": emptyC, "sil:recv-sets": recv,
		"sil:some-muted": muted > 0, "sil:via-file": sc.ViaFile} {
		if v {
			res.Class(k)
		}
	}
	res.Class("sil:size:" + c11SizeClass(len(q1)))
}

type c11LoadedLog struct {
	l *nflog.Log
	e []*nflogpb.Entry
}

// c11IsSizeLimit: the loader's error is protodelim's record size limit.
func c11IsSizeLimit(err error) bool {
	var tooLarge *protodelim.SizeTooLargeError
	return errors.As(err, &tooLarge)
}

func c11SizeClass(n int) string {
	switch {
	case n == 0:
		return "0"
	case n < 10:
		return "1-9"
	case n < 100:
		return "10-99"
	case n < 1000:
		return "100-999"
	}
	return "1000+"
}

func c11RTNflog(sc *c11RTScenario, res *pbt.Result) {
	base := time.Now()
	ret := time.Duration(sc.RetentionSec) * time.Second
	u := c11NfUniverse{Recvs: sc.NfU.Recvs, Keys: append([]c11Key(nil), sc.NfU.Keys...)}
	firstBulk := len(u.Keys)
	for i := 0; i < sc.NfBulk; i++ {
		u.Keys = append(u.Keys, c11Key{Recv: 0, GKey: fmt.Sprintf("bulk%d", i)})
	}
	var init []byte
	if len(sc.NfInitial) > 0 {
		init = c11NfFile(base, &u, sc.NfInitial)
	}
	l1, err := c11NewLog(ret, init, "")
	if err != nil {
		res.Add(pbt.V("old-format-refused", "a notification-log file with (deprecated) fields of earlier versions is refused: %v", err))
		return
	}
	if len(sc.NfInitial) > 0 {
		e0, err := c11QueryNf(l1, &u)
		if err != nil {
			res.Add(pbt.V("query-error", "nflog Query after loading the initial file: %v", err))
			return
		}
		for i := range sc.NfInitial {
			r := &sc.NfInitial[i]
			if r.ExpOff < 0 {
				continue
			}
			if want := r.c11Wire(base, &u).Entry; e0[r.Key] == nil || !proto.Equal(e0[r.Key], want) {
				res.Add(pbt.V("initial-entry", "initial log record for key %d loads as %s, want %s", r.Key, c11Short(e0[r.Key]), c11Short(want)))
			}
		}
	}
	tr := &c11NfTrack{}
	c11ApplyNfOps(l1, base, &u, sc.NfOps, tr, time.Sleep)
	for i := 0; i < sc.NfBulk; i++ {
		k := u.Keys[firstBulk+i]
		if err := l1.Log(u.Recvs[k.Recv].pb(), k.GKey, []uint64{uint64(i)}, nil, nil, 0); err != nil {
			tr.errs = append(tr.errs, fmt.Sprintf("bulk log: %v", err))
			break
		}
	}
	if len(tr.errs) > 0 {
		res.Fail("generator", "unexpected API errors while building the log: %s", c11Describe(tr.errs))
		return
	}
	time.Sleep(500 * time.Millisecond)
	e1, err := c11QueryNf(l1, &u)
	if err != nil {
		res.Add(pbt.V("query-error", "nflog Query on the original log: %v", err))
		return
	}
	ignore := map[int]bool{}
	for i := range sc.NfInitial {
		r := &sc.NfInitial[i]
		if r.ExpOff < 0 && e1[r.Key] != nil && proto.Equal(e1[r.Key], r.c11Wire(base, &u).Entry) {
			ignore[r.Key] = true // still the record that is past its expiry
		}
	}
	var buf bytes.Buffer
	n, err := l1.Snapshot(&buf)
	if err != nil {
		res.Add(pbt.V("snapshot-error", "Snapshot of a reachable log state fails: %v", err))
		return
	}
	if int(n) != buf.Len() {
		res.Add(pbt.V("snapshot-size", "nflog Snapshot reports %d bytes, wrote %d", n, buf.Len()))
	}
	snap := append([]byte(nil), buf.Bytes()...)
	loadLog := func(b []byte, what string) (*c11LoadedLog, bool) {
		var ll c11LoadedLog
		var err error
		if sc.ViaFile {
			dir, derr := os.MkdirTemp("", "c11rt")
			if derr != nil {
				panic(derr)
			}
			defer os.RemoveAll(dir)
			f := filepath.Join(dir, "nflog")
			if werr := os.WriteFile(f, b, 0o644); werr != nil {
				panic(werr)
			}
			ll.l, err = c11NewLog(ret, nil, f)
		} else {
			ll.l, err = c11NewLog(ret, b, "")
		}
		if err != nil {
			res.Add(c11LoadRefused("nflog("+what+")", err, len(b), c11MaxRecord(b)))
			return nil, false
		}
		ll.e, err = c11QueryNf(ll.l, &u)
		if err != nil {
			res.Add(pbt.V("query-error", "nflog Query on the %s log: %v", what, err))
			return nil, false
		}
		return &ll, true
	}
	l2, ok := loadLog(snap, "reloaded")
	if !ok {
		return
	}
	if d := c11DiffNf(e1, l2.e, ignore); d != "" {
		res.Add(pbt.V("roundtrip-nflog", "log after Snapshot+load differs: %s", d))
	}
	buf.Reset()
	if _, err := l2.l.Snapshot(&buf); err != nil {
		res.Add(pbt.V("snapshot-error", "Snapshot of a reloaded log fails: %v", err))
	} else if l3, ok := loadLog(buf.Bytes(), "second-generation"); ok {
		if d := c11DiffNf(l2.e, l3.e, ignore); d != "" {
			res.Add(pbt.V("roundtrip-nflog", "second generation differs: %s", d))
		}
	}

	// "already-sent notifications are not repeated after a restart": absolute clause
	now := time.Now()
	for key, sent := range tr.lastNotify {
		if ignore[key] || !now.Before(sent.At.Add(sent.Repeat)) {
			continue
		}
		alerts := c11Alerts(sent.Alerts, 0, now)
		o1, r1, _, err1 := c11Dedup(l1, &u, key, alerts, sent.Repeat, true, now)
		o2, r2, _, err2 := c11Dedup(l2.l, &u, key, alerts, sent.Repeat, true, now)
		if err1 != nil || o1 {
			res.Fail("oracle-self-check", "original log would re-notify key %d right after notifying (%v %s %v)", key, o1, r1, err1)
			continue
		}
		if err2 != nil || o2 {
			res.Add(pbt.V("renotified-after-restart", "key %d: the same firing alerts %v, notified %v ago (repeat %v), are notified again by the reloaded log (reason %s, err %v)",
				key, sent.Alerts, now.Sub(sent.At), sent.Repeat, r2, err2))
		}
		res.Class("nf:sent-then-restart")
	}
	// dedup decisions on the reloaded log equal those on the original
	notified, suppressed := 0, 0
	for i, p := range sc.DedupProbes {
		if ignore[p.Key] {
			continue
		}
		alerts := c11Alerts(p.Alerts, p.ResolvedN, now)
		rep := time.Duration(p.RepeatSec) * time.Second
		o1, r1, c1, err1 := c11Dedup(l1, &u, p.Key, alerts, rep, p.SendResolved, now)
		o2, r2, c2, err2 := c11Dedup(l2.l, &u, p.Key, alerts, rep, p.SendResolved, now)
		if o1 != o2 || r1 != r2 || (err1 == nil) != (err2 == nil) {
			res.Add(pbt.V("dedup-differs-after-reload", "probe %d key %d: original log -> notify=%v (%s, %v), reloaded log -> notify=%v (%s, %v)", i, p.Key, o1, r1, err1, o2, r2, err2))
			continue
		}
		st1, _ := notify.NflogStore(c1)
		st2, _ := notify.NflogStore(c2)
		if (st1 == nil) != (st2 == nil) {
			res.Add(pbt.V("dedup-differs-after-reload", "probe %d key %d: receiver data store present=%v vs %v", i, p.Key, st1 != nil, st2 != nil))
		}
		if o1 {
			notified++
		} else {
			suppressed++
		}
	}

	var dStr, dInt, dFloat, legacy, some bool
	cnt := 0
	for _, e := range e1 {
		if e == nil {
			continue
		}
		cnt++
		some = true
		legacy = legacy || len(e.GroupHash) > 0 || e.Resolved
		for _, v := range e.ReceiverData {
			switch v.Value.(type) {
			case *nflogpb.ReceiverDataValue_StrVal:
				dStr = true
			case *nflogpb.ReceiverDataValue_IntVal:
				dInt = true
			case *nflogpb.ReceiverDataValue_DoubleVal:
				dFloat = true
			}
		}
	}
	for k, v := range map[string]bool{"nf:data-str": dStr, "nf:data-int": dInt, "nf:data-float": dFloat, "nf:deprecated-fields": legacy,
		"nf:non-empty": some, "nf:dedup-suppressed": suppressed > 0, "nf:dedup-notified": notified > 0, "nf:past-expiry-in-state": len(ignore) > 0} {
		if v {
			res.Class(k)
		}
	}
	res.Class("nf:size:" + c11SizeClass(cnt))
}

func TestC11RoundTrip(t *testing.T) {
	pbt.Run(t, pbt.Spec[c11RTScenario]{
		Property: "C11", Name: "C11RoundTrip",
		Rule: "virtual time; silence store built from an optional hand-written initial file (current format, OLD single-matcher-list format, deprecated comments list; entries past their expiry allowed) + 0-12 API operations (Set new / edit in place / replace matchers / Expire / Merge of hand-written peer records in old and new format / sleep / GC) + 0..300 (thorough ..4000) bulk Sets; fields: 1-3 matcher sets x 1-3 matchers, all four operators, regex ASTs, UTF-8 names and values, annotations, empty comment, receiver matcher sets, ns timestamps. Notification log built from a hand-written initial file (deprecated group_hash/resolved fields) + Log with arbitrary hashes and str/int/float receiver data (NaN, Inf, extremes) + the real DedupStage->SetNotifiesStage pipeline + Merge + sleep + GC + bulk. Oracle: Snapshot -> New(SnapshotReader | SnapshotFile), in two cases of five by a process running in classic or UTF-8 strict matcher mode, never errors; Query equal (proto.Equal per id / per key) for everything not past its expiry; old-format records appear upgraded exactly; a second generation equals the first; Silencer.Mutes on 64+ label sets at 4 instants equal between original and reloaded store and equal to the reference semantics over the reference matcher ASTs; DedupStage decisions (+reason) equal on original and reloaded log; a notification just logged for firing alerts is not repeated by the reloaded log inside the repeat interval. Records above protodelim's 4 MiB limit are not generated here (sub-check C11RecordSize). Non-trivial: the snapshotted state holds >=1 silence with >=2 matcher sets or >=1 silence that came from an old-format record. Distinct by scenario digest.",
		Gen:  c11GenRT, Exec: c11ExecRT,
	})
}
