package checks

// C11RecordSize — "never refuses to start because of a file it wrote itself",
// at the one size boundary the wire format has: protodelim's reader refuses
// records above 4 MiB, the writer has no such limit (and by default neither has
// the API: --silences.max-silence-size-bytes defaults to 0 = unlimited).

import (
	"bytes"
	"context"
	"fmt"
	"strings"
	"testing"
	"time"

	"pgregory.net/rapid"

	"verif/harness/pbt"
	"verif/harness/ref"
)

type c11SizeScenario struct {
	Store string `json:"store"` // sil | nf
	Delta int    `json:"delta"` // requested payload size of the big record relative to the 4 MiB limit
	Small int    `json:"small"` // small records around it
}

func c11GenSize(t *rapid.T) c11SizeScenario {
	return c11SizeScenario{
		Store: rapid.SampledFrom([]string{"sil", "nf"}).Draw(t, "store"),
		Delta: rapid.SampledFrom([]int{1, 0, -1, 2, -2, 3, -3, 1000, -1000, 100000, -100000, 1 << 20}).Draw(t, "delta"),
		Small: rapid.IntRange(0, 3).Draw(t, "small"),
	}
}

func c11GenSetsFixed(n int) [][]ref.Matcher {
	var out [][]ref.Matcher
	for i := 0; i < n; i++ {
		out = append(out, []ref.Matcher{{Op: "=", Name: "a", Value: fmt.Sprintf("v%d", i)}, {Op: "!~", Name: "b", Re: &ref.Re{Op: "lit", Lit: "y"}}})
	}
	return out
}

func init() {
	// A store holding one record above protodelim's 4 MiB read limit writes a
	// snapshot that its own loader refuses.
	pbt.RegisterSignature("c11-record-over-4MiB", func(v pbt.Violation) bool {
		if v.Kind != "load-refused" {
			return false
		}
		lim, _ := v.Facts["size_limit"].(bool)
		var mx float64
		switch n := v.Facts["max_record_bytes"].(type) {
		case int:
			mx = float64(n)
		case float64:
			mx = n
		}
		return lim && mx > c11ProtodelimMax
	})
}

func c11ExecSize(sc c11SizeScenario) (res pbt.Result) {
	bubblePanic := c11Bubble(func() {
		c11SetMode()
		base := time.Now()
		ctx := context.Background()
		target := c11ProtodelimMax + sc.Delta // payload bytes of the big record (without its length prefix)
		payloadOf := func(snap []byte) int {  // payload size of the biggest record
			mx := c11MaxRecord(snap)
			// exact: find l with varintLen(mx-l) == l
			for l := 1; l < 6; l++ {
				n, w := mx-l, 1
				for x := n; x >= 128; x >>= 7 {
					w++
				}
				if w == l {
					return n
				}
			}
			return mx
		}
		var snap []byte
		var actual int
		if sc.Store == "sil" {
			build := func(commentLen int) ([]byte, map[string]bool) {
				s, err := c11NewSilences(time.Hour, nil, "")
				if err != nil {
					panic(err)
				}
				for i := 0; i <= sc.Small; i++ {
					cl := 3
					if i == sc.Small/2 {
						cl = commentLen
					}
					arg := (&c11Sil{Sets: c11GenSetsFixed(2), EndOff: 7200, CreatedBy: "me", Comment: strings.Repeat("x", cl)}).c11SetArg(base)
					if err := s.Set(ctx, arg); err != nil {
						panic(fmt.Sprintf("Set refuses a %d byte comment: %v", cl, err))
					}
				}
				var buf bytes.Buffer
				if _, err := s.Snapshot(&buf); err != nil {
					panic(err)
				}
				q, _ := c11QuerySil(s)
				ids := map[string]bool{}
				for id := range q {
					ids[id] = true
				}
				return buf.Bytes(), ids
			}
			probe, _ := build(target - 1000)
			overhead := payloadOf(probe) - (target - 1000)
			var ids map[string]bool
			snap, ids = build(target - overhead)
			actual = payloadOf(snap)
			s2, err := c11NewSilences(time.Hour, snap, "")
			if err != nil {
				res.Add(c11LoadRefused("silences", err, len(snap), c11MaxRecord(snap)).With("payload_bytes", actual))
			} else if q, qerr := c11QuerySil(s2); qerr != nil || len(q) != len(ids) {
				res.Add(pbt.V("roundtrip-silence", "reloaded store has %d silences, want %d (%v)", len(q), len(ids), qerr))
			} else {
				for id, sil := range q {
					if !ids[id] || (len(sil.Comment) != 3 && len(sil.Comment) != target-overhead) {
						res.Add(pbt.V("roundtrip-silence", "silence %q comes back with a %d byte comment", id, len(sil.Comment)))
					}
				}
			}
		} else {
			u := c11NfUniverse{Recvs: []c11Recv{{Group: "g", Integration: "webhook"}}}
			for i := 0; i <= sc.Small; i++ {
				u.Keys = append(u.Keys, c11Key{GKey: fmt.Sprintf("k%d", i)})
			}
			build := func(n10, n1 int) []byte {
				l, err := c11NewLog(time.Hour, nil, "")
				if err != nil {
					panic(err)
				}
				for i := 0; i <= sc.Small; i++ {
					firing := []uint64{1}
					if i == sc.Small/2 {
						firing = make([]uint64, 0, n10+n1)
						for j := 0; j < n10; j++ {
							firing = append(firing, ^uint64(j)) // 10-byte varints
						}
						for j := 0; j < n1; j++ {
							firing = append(firing, uint64(j%128)) // 1-byte varints
						}
					}
					if err := l.Log(u.Recvs[0].pb(), u.Keys[i].GKey, firing, nil, nil, 0); err != nil {
						panic(err)
					}
				}
				var buf bytes.Buffer
				if _, err := l.Snapshot(&buf); err != nil {
					panic(err)
				}
				return buf.Bytes()
			}
			n10 := (target - 2000) / 10
			probe := build(n10, 0)
			rest := target - payloadOf(probe)
			if rest < 0 {
				rest = 0
			}
			snap = build(n10, rest)
			actual = payloadOf(snap)
			l2, err := c11NewLog(time.Hour, snap, "")
			if err != nil {
				res.Add(c11LoadRefused("nflog", err, len(snap), c11MaxRecord(snap)).With("payload_bytes", actual))
			} else if es, qerr := c11QueryNf(l2, &u); qerr != nil {
				res.Add(pbt.V("roundtrip-nflog", "reloaded log cannot be queried: %v", qerr))
			} else {
				for i, e := range es {
					wantN := 1
					if i == sc.Small/2 {
						wantN = n10 + rest
					}
					if e == nil || len(e.FiringAlerts) != wantN {
						res.Add(pbt.V("roundtrip-nflog", "key %d comes back with %d firing alerts, want %d", i, len(e.GetFiringAlerts()), wantN))
					}
				}
			}
		}
		switch {
		case actual > c11ProtodelimMax:
			res.Class("payload>4MiB")
		case actual == c11ProtodelimMax:
			res.Class("payload==4MiB")
		default:
			res.Class("payload<4MiB")
		}
		if actual != target {
			res.Class("size-approximate")
		}
		res.Class("store:" + sc.Store)
		res.NonTrivial = actual >= c11ProtodelimMax-3 && actual <= c11ProtodelimMax+3 || actual > c11ProtodelimMax
		res.Sample = map[string]any{"store": sc.Store, "payload_bytes": actual, "small": sc.Small}
	})
	if bubblePanic != nil {
		res.Add(pbt.V("panic", "panic: %v", bubblePanic))
	}
	return res
}

func TestC11RecordSize(t *testing.T) {
	pbt.Run(t, pbt.Spec[c11SizeScenario]{
		Property: "C11", Name: "C11RecordSize",
		Rule: "one store (silences: one silence with a comment of generated length created through Silences.Set with default, i.e. unlimited, size limits; nflog: one Log call with a generated number of firing alerts) plus 0-3 small records; the big record's wire payload is steered to 4 MiB + delta, delta in {-100000..+1 MiB, incl. -3..+3}; Snapshot -> New(SnapshotReader) must succeed and return every record. Non-trivial: payload within 3 bytes of the limit or above it.",
		Gen:  c11GenSize, Exec: c11ExecSize,
	})
}
