package checks

import (
	"encoding/json"
	"fmt"
	"net/http"
	"net/http/httptest"
	"os"
	"reflect"
	"regexp"
	"runtime/debug"
	"sort"
	"strconv"
	"strings"
	"sync"
	"testing"

	"github.com/prometheus/client_golang/prometheus"
	"gopkg.in/yaml.v2"
	"pgregory.net/rapid"

	apiv2 "github.com/prometheus/alertmanager/api/v2"
	"github.com/prometheus/alertmanager/config"
	"github.com/prometheus/alertmanager/dispatch"
	"github.com/prometheus/alertmanager/featurecontrol"
	"github.com/prometheus/alertmanager/matcher/compat"

	"verif/harness/gen"
	"verif/harness/pbt"
	"verif/harness/ref"
)

// ------------------------------------------------------------ shared helpers

type c17Flags struct {
	featurecontrol.NoopFlags
	classic, utf8 bool
}

func (f c17Flags) ClassicMode() bool    { return f.classic }
func (f c17Flags) UTF8StrictMode() bool { return f.utf8 }

var c17Modes = []string{"fallback", "classic", "utf8"}

// c17SetMode sets the process-global matcher parser mode the way
// cmd/alertmanager does from its feature flags.
func c17SetMode(mode string) {
	compat.InitFromFlags(nopLog, c17Flags{classic: mode == "classic", utf8: mode == "utf8"})
}

// c17Panic is a recovered panic of the code under test.
type c17Panic struct {
	Val  any
	Site string // innermost alertmanager function on the panicking stack
}

func (p *c17Panic) String() string { return fmt.Sprintf("%v (in %s)", p.Val, p.Site) }

var c17FrameRe = regexp.MustCompile(`(?m)^(github\.com/prometheus/alertmanager/[^\s(]+(?:\([^)]*\))?[^\s(]*)\(`)

// c17PanicSite extracts the innermost frame of the code under test from a
// stack captured inside recover().
func c17PanicSite(stack []byte) string {
	s := string(stack)
	// frames above the runtime's panic() belong to the recovery itself
	if i := strings.LastIndex(s, "\npanic("); i >= 0 {
		s = s[i:]
	}
	if m := c17FrameRe.FindStringSubmatch(s); m != nil {
		return strings.TrimPrefix(m[1], "github.com/prometheus/alertmanager/")
	}
	return "?"
}

// c17Load calls config.Load and converts a panic into a value.
func c17Load(s string) (cfg *config.Config, err error, panicked *c17Panic) {
	defer func() {
		if r := recover(); r != nil {
			panicked = &c17Panic{Val: r, Site: c17PanicSite(debug.Stack())}
		}
	}()
	cfg, err = config.Load(s)
	return cfg, err, nil
}

// c17GlobalHTTPConfigNull: the document's global section has an http_config
// key whose value is null (lenient parse; any failure means "no").
func c17GlobalHTTPConfigNull(input string) (is bool) {
	defer func() {
		if recover() != nil {
			is = false
		}
	}()
	var doc struct {
		Global map[string]any `yaml:"global"`
	}
	if err := yaml.Unmarshal([]byte(input), &doc); err != nil {
		return false
	}
	v, ok := doc.Global["http_config"]
	return ok && v == nil
}

var c17QuotedNullRe = regexp.MustCompile(`["'](?:null|~)["']`)

// c17LoadPanic builds the violation for a panic of config.Load on input; the
// facts describe the panic site and the input shapes of the known panics.
func c17LoadPanic(what string, p *c17Panic, input string) pbt.Violation {
	return pbt.V("load-panic", "%s panicked: %v", what, p).With("panic_in", p.Site).
		With("global_http_config_null", c17GlobalHTTPConfigNull(input)).
		With("quoted_null_scalar", c17QuotedNullRe.MatchString(input)).
		With("mentions_update_message", strings.Contains(input, "update_message"))
}

// c17String calls Config.String and converts a panic into a value.
func c17String(cfg *config.Config) (s string, panicked *c17Panic) {
	defer func() {
		if r := recover(); r != nil {
			panicked = &c17Panic{Val: r, Site: c17PanicSite(debug.Stack())}
		}
	}()
	return cfg.String(), nil
}

func c17WellFormedViolations(res *pbt.Result, cfg *config.Config, what string) {
	for _, is := range ref.C17WellFormed(cfg) {
		res.Add(pbt.V("accepted-ill-formed", "%s: %s", what, is.Msg).With("breach", is.Kind).With("path", is.Path).With("item", is.Item))
	}
}

// c17StatusOriginal serves cfg through the real api/v2 handler and returns the
// body of GET /status and its config.original field.
func c17StatusOriginal(cfg *config.Config) (body, original string, err error) {
	defer func() {
		if r := recover(); r != nil {
			err = fmt.Errorf("panic: %v", r)
		}
	}()
	api, err := apiv2.NewAPI(nil, nil, nil, nil, nil, nopLog, prometheus.NewRegistry())
	if err != nil {
		return "", "", err
	}
	api.Update(cfg, nil)
	rec := httptest.NewRecorder()
	api.Handler.ServeHTTP(rec, httptest.NewRequest(http.MethodGet, "/api/v2/status", nil))
	body = rec.Body.String()
	if rec.Code != http.StatusOK {
		return body, "", fmt.Errorf("GET /status: HTTP %d: %s", rec.Code, body)
	}
	var st struct {
		Config struct {
			Original *string `json:"original"`
		} `json:"config"`
	}
	if err := json.Unmarshal(rec.Body.Bytes(), &st); err != nil {
		return body, "", err
	}
	if st.Config.Original == nil {
		return body, "", fmt.Errorf("GET /status: no config.original in %s", body)
	}
	return body, *st.Config.Original, nil
}

// ------------------------------------------------- generator/type cross-check

var (
	c17CrossOnce    sync.Once
	c17CrossMissing []string // secret-typed fields of the tree the generator never sets
	c17CrossStale   []string // paths the generator claims that do not exist
)

func c17CrossCheck() (missing, stale []string) {
	c17CrossOnce.Do(func() {
		have := map[string]bool{}
		for _, p := range gen.C17SecretPaths() {
			have[p] = true
		}
		in := map[string]bool{}
		for _, p := range ref.C17SecretTypePaths(reflect.TypeOf(config.Config{})) {
			in[p] = true
			if !have[p] {
				c17CrossMissing = append(c17CrossMissing, p)
			}
		}
		for p := range have {
			if !in[p] {
				c17CrossStale = append(c17CrossStale, p)
			}
		}
		sort.Strings(c17CrossStale)
	})
	return c17CrossMissing, c17CrossStale
}

// ------------------------------------------------------------------ scenario

type c17StructScenario struct {
	Mode     string          `json:"mode"`
	Secrets  bool            `json:"secrets"`
	Sub      string          `json:"sub"` // "main" or the known-defect sub-generator that produced it
	YAML     string          `json:"yaml"`
	Canaries []gen.C17Canary `json:"canaries,omitempty"`
	Kinds    []string        `json:"kinds,omitempty"`
	Features []string        `json:"features,omitempty"`
	Excluded int             `json:"excluded,omitempty"`
}

func c17GenStruct(t *rapid.T) c17StructScenario {
	sc := c17StructScenario{Sub: "main"}
	switch rapid.IntRange(0, 9).Draw(t, "mode") {
	case 0, 1:
		sc.Mode = "classic"
	case 2, 3:
		sc.Mode = "utf8"
	default:
		sc.Mode = "fallback"
	}
	o := gen.C17Opts{UTF8: sc.Mode != "classic", Big: pbt.Thorough()}
	// (rapid's integer draws favour small values: the measured split is in the evidence classes)
	switch sel := rapid.IntRange(0, 9).Draw(t, "sub"); {
	case sel < 4:
		// the masking oracle does not depend on a reload: every shape is allowed
		o.Secrets, o.F6, o.F11, o.SlackAppToken, o.IncidentioGlobalHTTP, o.MSTeamsV2EnvProxy = true, true, true, true, true, true
	case sel < 9:
	default:
		sc.Sub = rapid.SampledFrom([]string{"F6", "F11", "slack-app-token", "incidentio-global-http", "msteamsv2-env-proxy"}).Draw(t, "knownShape")
		o.Force = sc.Sub
	}
	sc.Secrets = o.Secrets
	out := gen.C17Config(t, o)
	sc.YAML, sc.Canaries, sc.Kinds, sc.Features, sc.Excluded = out.YAML, out.Canaries, out.Kinds, out.Features, out.Excluded
	return sc
}

// c17RouteAt returns the config route at "root/0/2".
func c17RouteAt(root *config.Route, path string) []*config.Route {
	chain := []*config.Route{root}
	cur := root
	for _, p := range strings.Split(path, "/")[1:] {
		i, err := strconv.Atoi(p)
		if err != nil || cur == nil || i >= len(cur.Routes) {
			return nil
		}
		cur = cur.Routes[i]
		chain = append(chain, cur)
	}
	return chain
}

// c17OnlyEmptyGroupBy: every difference is a group_by difference at a node
// whose grouping comes from a node written as `group_by: []`.
func c17OnlyEmptyGroupBy(root *config.Route, diffs []ref.C17TreeDiff) bool {
	if len(diffs) == 0 {
		return false
	}
	for _, d := range diffs {
		if d.Field != "group_by" {
			return false
		}
		chain := c17RouteAt(root, d.Path)
		if chain == nil {
			return false
		}
		ok := false
		for i := len(chain) - 1; i >= 0; i-- {
			r := chain[i]
			if r.GroupByAll || len(r.GroupBy) > 0 {
				break // grouping set by a non-empty list: not this shape
			}
			if r.GroupBy != nil {
				ok = true // `group_by: []`
				break
			}
		}
		if !ok {
			return false
		}
	}
	return true
}

func c17HasEmptyMatchRE(cfg *config.Config) bool {
	found := false
	var walk func(r *config.Route)
	walk = func(r *config.Route) {
		if r == nil {
			return
		}
		for _, re := range r.MatchRE {
			if re.Original == "" {
				found = true
			}
		}
		for _, c := range r.Routes {
			walk(c)
		}
	}
	walk(cfg.Route)
	for _, ir := range cfg.InhibitRules {
		for _, re := range ir.SourceMatchRE {
			if re.Original == "" {
				found = true
			}
		}
		for _, re := range ir.TargetMatchRE {
			if re.Original == "" {
				found = true
			}
		}
	}
	return found
}

func c17IncidentioInheritsHTTP(cfg *config.Config) bool {
	for _, r := range cfg.Receivers {
		for _, ic := range r.IncidentioConfigs {
			if ic != nil && cfg.Global != nil && ic.HTTPConfig != nil && ic.HTTPConfig == cfg.Global.HTTPConfig {
				return true
			}
		}
	}
	return false
}

func c17MSTeamsV2ProxyConflict(cfg *config.Config) bool {
	for _, r := range cfg.Receivers {
		for _, c := range r.MSTeamsV2Configs {
			if c != nil && c.HTTPConfig != nil && c.HTTPConfig.ProxyFromEnvironment && c.HTTPConfig.ProxyURL.URL != nil {
				return true
			}
		}
	}
	return false
}

func c17HasSlackAppToken(cfg *config.Config) bool {
	for _, r := range cfg.Receivers {
		for _, sc := range r.SlackConfigs {
			if sc != nil && (sc.AppToken != "" || sc.AppTokenFile != "") {
				return true
			}
		}
	}
	return false
}

func c17ExecStruct(sc c17StructScenario) (res pbt.Result) {
	c17SetMode(sc.Mode)
	res.Excluded = sc.Excluded
	res.Class("mode:"+sc.Mode, "sub:"+sc.Sub)
	for _, k := range sc.Kinds {
		res.Class("kind:" + k)
	}
	for _, f := range sc.Features {
		res.Class("feat:" + f)
	}
	if missing, stale := c17CrossCheck(); len(missing) > 0 || len(stale) > 0 {
		for _, p := range missing {
			res.Add(pbt.V("secret-field-not-generated", "secret-typed field %s exists in config.Config but the generator never sets it", p).With("path", p))
		}
		for _, p := range stale {
			res.Add(pbt.V("generator", "generator claims secret path %s which does not exist in config.Config", p))
		}
		return res
	}

	cfg, err, pnc := c17Load(sc.YAML)
	if pnc != nil {
		res.Add(c17LoadPanic("config.Load", pnc, sc.YAML))
		return res
	}
	if err != nil {
		res.Add(pbt.V("generator", "generated configuration does not load (mode %s): %v", sc.Mode, err))
		return res
	}
	c17WellFormedViolations(&res, cfg, "generated config")

	printed, pnc := c17String(cfg)
	if pnc != nil {
		res.Add(pbt.V("string-panic", "Config.String panicked: %v", pnc))
		return res
	}
	if strings.HasPrefix(printed, "<error creating config string") {
		res.Add(pbt.V("string-error", "Config.String failed: %s", printed))
		return res
	}

	if sc.Secrets {
		// the canaries really sit in secret-typed fields of the loaded config
		loaded := ref.C17SecretValues(cfg)
		for _, c := range sc.Canaries {
			if c.Extra {
				continue
			}
			found := false
			for _, sv := range loaded {
				if !strings.Contains(sv.Value, c.Token) {
					continue
				}
				p := c.Path
				// a deprecated bearer_token is moved to authorization.credentials on load
				if sv.Path == p || (strings.HasSuffix(p, ".bearer_token") && sv.Path == strings.TrimSuffix(p, ".bearer_token")+".authorization.credentials") {
					found = true
				}
			}
			if !found {
				res.Add(pbt.V("generator", "canary %s not found in a secret-typed field at %s after load", c.Token, c.Path))
			}
		}
		body, original, err := c17StatusOriginal(cfg)
		if err != nil {
			res.Add(pbt.V("status-api", "GET /api/v2/status failed: %v", err))
		}
		for _, c := range sc.Canaries {
			if strings.Contains(printed, c.Token) {
				res.Add(pbt.V("secret-leak", "Config.String() prints the secret placed at %s (token %s)", c.Path, c.Token).With("path", c.Path).With("where", "String"))
			}
			if err == nil && (strings.Contains(original, c.Token) || strings.Contains(body, c.Token)) {
				res.Add(pbt.V("secret-leak", "GET /api/v2/status shows the secret placed at %s (token %s)", c.Path, c.Token).With("path", c.Path).With("where", "status-api"))
			}
			res.Class("secret:" + c17PathClass(c.Path))
		}
		// free outcome, measured only: does the masked text load back?
		if _, err2, p2 := c17Load(printed); p2 != nil {
			res.Add(c17LoadPanic("config.Load of the printed (masked) config", p2, printed))
		} else if err2 == nil {
			res.Class("masked-text-reloads")
		} else {
			res.Class("masked-text-does-not-reload")
		}
		res.NonTrivial = len(sc.Canaries) > 0
		return res
	}

	// ---- configuration without secrets: print/load stability
	if _, original, err := c17StatusOriginal(cfg); err != nil {
		res.Add(pbt.V("status-api", "GET /api/v2/status failed: %v", err))
	} else if original != printed {
		res.Add(pbt.V("status-api", "config.original of GET /status differs from Config.String()"))
	}
	cfg2, err, pnc := c17Load(printed)
	if pnc != nil {
		res.Add(c17LoadPanic("config.Load of the printed config", pnc, printed))
		return res
	}
	emptyRE := c17HasEmptyMatchRE(cfg)
	slackApp := c17HasSlackAppToken(cfg)
	if err != nil {
		res.Add(pbt.V("roundtrip-load-fails", "the printed form of a loaded secret-free configuration does not load: %v", err).
			With("error", err.Error()).With("empty_match_re", emptyRE).With("slack_app_token", slackApp).With("incidentio_inherits_global_http", c17IncidentioInheritsHTTP(cfg)).
			With("msteamsv2_env_proxy_plus_inherited_proxy_url", c17MSTeamsV2ProxyConflict(cfg)))
		res.NonTrivial = true
		return res
	}
	c17WellFormedViolations(&res, cfg2, "reloaded config")
	t1, t2 := dispatch.NewRoute(cfg.Route, nil), dispatch.NewRoute(cfg2.Route, nil)
	if diffs := ref.C17CompareTrees(t1, t2); len(diffs) > 0 {
		fields := map[string]bool{}
		for _, d := range diffs {
			fields[d.Field] = true
		}
		var fl []string
		for f := range fields {
			fl = append(fl, f)
		}
		sort.Strings(fl)
		d := diffs[0]
		res.Add(pbt.V("roundtrip-tree-differs", "reloaded routing tree differs at %s (%s): %s vs %s (%d differences, fields %v)", d.Path, d.Field, d.A, d.B, len(diffs), fl).
			With("fields", strings.Join(fl, ",")).With("only_group_by_of_empty_list_nodes", c17OnlyEmptyGroupBy(cfg.Route, diffs)))
	}
	if d := ref.C17CompareInhibitRules(cfg.InhibitRules, cfg2.InhibitRules); d != "" {
		res.Add(pbt.V("roundtrip-inhibit-differs", "reloaded inhibition rules differ: %s", d))
	}
	if d := ref.C17CompareIntervals(cfg, cfg2); d != "" {
		res.Add(pbt.V("roundtrip-intervals-differ", "reloaded time intervals differ: %s", d))
	}
	nodes := 0
	t1.Walk(func(*dispatch.Route) { nodes++ })
	if nodes > 1 {
		res.Class("tree>1")
	}
	if nodes > 5 {
		res.Class("tree>5")
	}
	if len(cfg.InhibitRules) > 0 {
		res.Class("has-inhibit-rules")
	}
	if len(cfg.TimeIntervals)+len(cfg.MuteTimeIntervals) > 0 {
		res.Class("has-time-intervals")
	}
	res.NonTrivial = nodes > 1 || len(cfg.InhibitRules) > 0 || len(cfg.TimeIntervals)+len(cfg.MuteTimeIntervals) > 0
	return res
}

// c17PathClass shortens a secret path for the histogram: http_config paths are
// counted per suffix and per parent separately.
func c17PathClass(p string) string {
	if i := strings.Index(p, ".http_config."); i >= 0 {
		return "http_config" + p[i+len(".http_config"):]
	}
	return strings.TrimPrefix(p, ".")
}

// c17Sigs mirrors what is registered with pbt so that the native fuzz target
// (which does not run under pbt.Run) can skip known findings as well.
var c17Sigs = map[string]func(pbt.Violation) bool{}

func c17RegisterSignature(name string, pred func(pbt.Violation) bool) {
	c17Sigs[name] = pred
	pbt.RegisterSignature(name, pred)
}

// c17IsKnown: v matches a signature listed with status "known" for C17 in the
// file named by VERIF_KNOWN.
func c17IsKnown(v pbt.Violation) bool {
	b, err := os.ReadFile(os.Getenv("VERIF_KNOWN"))
	if err != nil {
		return false
	}
	var f struct {
		Findings []struct {
			Property, Status, Signature string
		} `json:"findings"`
	}
	if json.Unmarshal(b, &f) != nil {
		return false
	}
	for _, e := range f.Findings {
		if e.Property == "C17" && e.Status == "known" {
			if pred := c17Sigs[e.Signature]; pred != nil && pred(v) {
				return true
			}
		}
	}
	return false
}

func init() {
	// F6: match_re / source_match_re / target_match_re with an empty expression
	// is printed as null, which the loader rejects.
	c17RegisterSignature("c17-empty-match-re-does-not-reload", func(v pbt.Violation) bool {
		e, _ := v.Facts["error"].(string)
		return v.Kind == "roundtrip-load-fails" && v.Facts["empty_match_re"] == true && strings.Contains(e, "invalid regexp value for")
	})
	// F11: `group_by: []` is dropped by String() (omitempty), the reloaded node inherits.
	c17RegisterSignature("c17-empty-group-by-dropped", func(v pbt.Violation) bool {
		return v.Kind == "roundtrip-tree-differs" && v.Facts["only_group_by_of_empty_list_nodes"] == true && v.Facts["fields"] == "group_by"
	})

	// N1 (new, Slack app token): a Slack receiver that uses an app token (own, or inherited from
	// global slack_app_token[_file]) is rewritten at load time (api_url := app_url,
	// http_config.authorization injected), and the printed result is rejected by
	// SlackConfig.UnmarshalYAML / HTTPClientConfig.Validate.
	c17RegisterSignature("c17-slack-app-token-does-not-reload", func(v pbt.Violation) bool {
		e, _ := v.Facts["error"].(string)
		if v.Kind != "roundtrip-load-fails" || v.Facts["slack_app_token"] != true {
			return false
		}
		for _, m := range []string{
			"at most one of api_url/api_url_file & app_token/app_token_file must be configured",
			"at most one of api_url & api_url_file must be configured",
			"at most one of basic_auth, oauth2 & authorization must be configured",
			"at most one of basic_auth, oauth2, bearer_token & bearer_token_file must be configured",
		} {
			if strings.Contains(e, m) {
				return true
			}
		}
		return false
	})
	// N2 (new, incident.io + global http_config): an incident.io receiver without its own http_config inherits the
	// global one; the printed receiver then carries http_config next to (or
	// without) alert_source_token[_file], which IncidentioConfig.UnmarshalYAML rejects.
	c17RegisterSignature("c17-incidentio-inherited-http-config-does-not-reload", func(v pbt.Violation) bool {
		e, _ := v.Facts["error"].(string)
		return v.Kind == "roundtrip-load-fails" && v.Facts["incidentio_inherits_global_http"] == true &&
			(strings.Contains(e, "cannot specify alert_source_token or alert_source_token_file when using http_config.authorization") ||
				strings.Contains(e, "at least one of alert_source_token, alert_source_token_file or http_config.authorization must be configured"))
	})
	// N3 (new, msteamsv2 proxy inheritance): an msteamsv2 http_config with proxy_from_environment and no
	// proxy_url inherits the global proxy_url at load; the printed combination is
	// rejected by ProxyConfig.Validate.
	c17RegisterSignature("c17-msteamsv2-inherited-proxy-url-does-not-reload", func(v pbt.Violation) bool {
		e, _ := v.Facts["error"].(string)
		return v.Kind == "roundtrip-load-fails" && v.Facts["msteamsv2_env_proxy_plus_inherited_proxy_url"] == true &&
			strings.Contains(e, "if proxy_from_environment is configured, proxy_url must not be configured")
	})
	// N4 (new, null integration entry): `slack_configs: [null]` (likewise opsgenie, wechat, rocketchat) is
	// accepted when the globals supply the credentials: the loop in
	// Config.UnmarshalYAML replaces the nil entry only in its local variable. The
	// nil entry makes receiver.BuildReceiverIntegrations dereference nil.
	c17RegisterSignature("c17-null-integration-entry-accepted", func(v pbt.Violation) bool {
		if v.Kind != "accepted-ill-formed" || v.Facts["breach"] != "nil-integration-config" {
			return false
		}
		switch v.Facts["item"] {
		case "SlackConfigs", "OpsGenieConfigs", "WechatConfigs", "RocketchatConfigs":
			return true
		}
		return false
	})
	// N5 (new): `global: {http_config: null}` (or an empty `http_config:` key)
	// leaves Global.HTTPConfig nil; Config.UnmarshalYAML copies *c.Global.HTTPConfig
	// for Slack and msteamsv2 receivers without an own http_config: nil dereference.
	c17RegisterSignature("c17-global-http-config-null-panics", func(v pbt.Violation) bool {
		site, _ := v.Facts["panic_in"].(string)
		return v.Kind == "load-panic" && v.Facts["global_http_config_null"] == true && strings.HasPrefix(site, "config.(*Config).UnmarshalYAML")
	})
	// N6 (new): SlackConfig.UnmarshalYAML evaluates c.APIURL.String() for
	// `update_message: true` although api_url may be absent (nil *SecretURL).
	c17RegisterSignature("c17-slack-update-message-without-api-url-panics", func(v pbt.Violation) bool {
		site, _ := v.Facts["panic_in"].(string)
		return v.Kind == "load-panic" && v.Facts["mentions_update_message"] == true && strings.HasPrefix(site, "config.(*SlackConfig).UnmarshalYAML")
	})
	// N7 (new): a quoted "null" (or "~") as a match_re / source_match_re /
	// target_match_re value bypasses Regexp.UnmarshalYAML (yaml.v2 treats the text
	// as null for custom unmarshalers but as a string for the scalar), and the
	// decoder then calls the promoted (*regexp.Regexp).UnmarshalText on the nil
	// embedded pointer.
	c17RegisterSignature("c17-quoted-null-regexp-panics", func(v pbt.Violation) bool {
		site, _ := v.Facts["panic_in"].(string)
		return v.Kind == "load-panic" && v.Facts["quoted_null_scalar"] == true && strings.HasPrefix(site, "config/common.(*MatchRegexps).UnmarshalYAML")
	})
}

func TestC17Structured(t *testing.T) {
	pbt.Run(t, pbt.Spec[c17StructScenario]{
		Property: "C17", Name: "C17Structured",
		Rule: "whole configurations rendered as YAML (routing tree depth<=4 fan-out<=4 with every option present/absent, matchers of all operators, legacy match/match_re, group_by absent/[]/names/'...', route labels; 1-4 receivers with 0-3 integrations of all 18 kinds; inhibit rules; time intervals in both sections; globals; tracing; event recorder) in fallback/classic/utf8 parser mode. Class sub:main splits into configs that carry a unique canary in every secret-bearing field of what was generated (classes masked-text-*; oracle: no canary in Config.String() nor in the body of the real GET /api/v2/status handler; the canary really sits in a secret-typed field at the claimed path; generator/type cross-check by reflection over config.Config) and secret-free configs (oracle: Load(String()) succeeds and routing tree, inhibit rules and time intervals are equal; config.original of GET /status equals String()). Classes sub:F6, sub:F11, sub:slack-app-token, sub:incidentio-global-http, sub:msteamsv2-env-proxy come from sub-generators that force one known-defect shape, which the main generator avoids (excluded_by_construction). Every loaded config also passes the well-formedness checker. Non-trivial: >=1 canary placed, resp. tree with >1 node or inhibit rules or time intervals.",
		Gen:  c17GenStruct, Exec: c17ExecStruct,
	})
}
