package checks

// C11 — shared scenario types, hand-written wire encodings, state building
// through the real API and canonical state comparison.

import (
	"bytes"
	"context"
	"encoding/binary"
	"errors"
	"fmt"
	"math"
	"sort"
	"strings"
	"time"

	"github.com/prometheus/client_golang/prometheus"
	"github.com/prometheus/common/model"
	"google.golang.org/protobuf/encoding/protodelim"
	"google.golang.org/protobuf/proto"
	"google.golang.org/protobuf/types/known/timestamppb"
	"pgregory.net/rapid"

	"github.com/prometheus/alertmanager/alert"
	"github.com/prometheus/alertmanager/eventrecorder"
	"github.com/prometheus/alertmanager/featurecontrol"
	"github.com/prometheus/alertmanager/matcher/compat"
	"github.com/prometheus/alertmanager/nflog"
	"github.com/prometheus/alertmanager/nflog/nflogpb"
	"github.com/prometheus/alertmanager/notify"
	"github.com/prometheus/alertmanager/silence"
	"github.com/prometheus/alertmanager/silence/silencepb"

	"verif/harness/gen"
	"verif/harness/ref"
)

// c11ProtodelimMax is protodelim's default record size limit (4 MiB). Records
// above it are the subject of the dedicated C11RecordSize sub-check; every
// other generator stays far below it.
const c11ProtodelimMax = 4 << 20

// c11Bubble runs f in a synctest bubble and converts a panic of the code
// under test on the bubble goroutine into the returned value (a panic there
// would otherwise kill the process: the deferred recover of the caller lives
// on another goroutine).
func c11Bubble(f func()) (panicked any) {
	bubble(func() {
		defer func() { panicked = recover() }()
		f()
	})
	return panicked
}

func c11SetMode() { compat.InitFromFlags(nopLog, featurecontrol.NoopFlags{}) }

// ------------------------------------------------------------------ silences

// c11Sil describes one silence: either the argument of Silences.Set (ID empty)
// or a hand-written wire record (initial snapshot file / gossip merge).
// All instants are offsets in seconds (+ns) from the base instant of the case.
type c11Sil struct {
	ID          string            `json:"id,omitempty"`
	Sets        [][]ref.Matcher   `json:"sets"`
	RecvSets    [][]ref.Matcher   `json:"recv_sets,omitempty"`
	StartOff    int64             `json:"start_off"`
	StartNs     int32             `json:"start_ns,omitempty"`
	EndOff      int64             `json:"end_off"`
	EndNs       int32             `json:"end_ns,omitempty"`
	UpdOff      int64             `json:"upd_off,omitempty"`
	UpdNs       int32             `json:"upd_ns,omitempty"`
	ExpOff      int64             `json:"exp_off,omitempty"`
	CreatedBy   string            `json:"created_by,omitempty"`
	Comment     string            `json:"comment,omitempty"`
	Annotations map[string]string `json:"annotations,omitempty"`
	// Format of a hand-written record:
	//   new      what the current encoder writes: matcher_sets + copy of the first set in matchers
	//   old      the old single-matcher-list wire format: matchers only (one set)
	//   comments old + the deprecated comments list instead of comment/created_by
	Format string `json:"format,omitempty"`
}

var c11MatchType = map[string]silencepb.Matcher_Type{
	"=": silencepb.Matcher_EQUAL, "!=": silencepb.Matcher_NOT_EQUAL,
	"=~": silencepb.Matcher_REGEXP, "!~": silencepb.Matcher_NOT_REGEXP,
}

func c11PbSets(sets [][]ref.Matcher) []*silencepb.MatcherSet {
	var out []*silencepb.MatcherSet
	for _, set := range sets {
		ms := &silencepb.MatcherSet{}
		for _, m := range set {
			ms.Matchers = append(ms.Matchers, &silencepb.Matcher{Type: c11MatchType[m.Op], Name: m.Name, Pattern: m.Pattern()})
		}
		out = append(out, ms)
	}
	return out
}

func c11At(base time.Time, off int64, ns int32) *timestamppb.Timestamp {
	return timestamppb.New(base.Add(time.Duration(off)*time.Second + time.Duration(ns)))
}

// c11SetArg builds the argument of Silences.Set.
func (s *c11Sil) c11SetArg(base time.Time) *silencepb.Silence {
	return &silencepb.Silence{
		MatcherSets:         c11PbSets(s.Sets),
		ReceiverMatcherSets: c11PbSets(s.RecvSets),
		StartsAt:            c11At(base, s.StartOff, s.StartNs),
		EndsAt:              c11At(base, s.EndOff, s.EndNs),
		CreatedBy:           s.CreatedBy,
		Comment:             s.Comment,
		Annotations:         s.Annotations,
	}
}

// c11Wire builds the hand-written wire record of the silence in its Format.
func (s *c11Sil) c11Wire(base time.Time) *silencepb.MeshSilence {
	sil := &silencepb.Silence{
		Id:                  s.ID,
		ReceiverMatcherSets: c11PbSets(s.RecvSets),
		StartsAt:            c11At(base, s.StartOff, s.StartNs),
		EndsAt:              c11At(base, s.EndOff, s.EndNs),
		UpdatedAt:           c11At(base, s.UpdOff, s.UpdNs),
		Annotations:         s.Annotations,
	}
	sets := c11PbSets(s.Sets)
	switch s.Format {
	case "old":
		sil.Matchers = sets[0].Matchers
		sil.CreatedBy, sil.Comment = s.CreatedBy, s.Comment
	case "comments":
		sil.Matchers = sets[0].Matchers
		sil.Comments = []*silencepb.Comment{{Author: s.CreatedBy, Comment: s.Comment, Timestamp: c11At(base, s.UpdOff, 0)}}
	default:
		sil.Matchers = sets[0].Matchers
		sil.MatcherSets = sets
		sil.CreatedBy, sil.Comment = s.CreatedBy, s.Comment
	}
	return &silencepb.MeshSilence{Silence: sil, ExpiresAt: c11At(base, s.ExpOff, 0)}
}

// c11Expected is what Query must return for a hand-written record once it is
// in the store: the same content with the old matcher list moved to one
// matcher set and the deprecated comments list moved to comment/created_by
// (property mechanism "old matcher list upgraded to matcher sets"; the proto
// file documents the comments list as the deprecated form of comment).
func (s *c11Sil) c11Expected(base time.Time) *silencepb.Silence {
	return &silencepb.Silence{
		Id:                  s.ID,
		MatcherSets:         c11PbSets(s.Sets),
		ReceiverMatcherSets: c11PbSets(s.RecvSets),
		StartsAt:            c11At(base, s.StartOff, s.StartNs),
		EndsAt:              c11At(base, s.EndOff, s.EndNs),
		UpdatedAt:           c11At(base, s.UpdOff, s.UpdNs),
		CreatedBy:           s.CreatedBy,
		Comment:             s.Comment,
		Annotations:         s.Annotations,
	}
}

func c11Delim(msgs ...proto.Message) []byte {
	var buf bytes.Buffer
	for _, m := range msgs {
		if _, err := protodelim.MarshalTo(&buf, m); err != nil {
			panic(fmt.Sprintf("c11: hand-written record does not marshal: %v", err))
		}
	}
	return buf.Bytes()
}

func c11SilFile(base time.Time, recs []c11Sil) []byte {
	var msgs []proto.Message
	for i := range recs {
		msgs = append(msgs, recs[i].c11Wire(base))
	}
	return c11Delim(msgs...)
}

type c11SilOp struct {
	Kind   string  `json:"kind"` // set | edit | replace | expire | merge | sleep | gc
	Sil    *c11Sil `json:"sil,omitempty"`
	Target int     `json:"target,omitempty"` // edit/replace/expire: index into the ids created so far
	Dt     int64   `json:"dt,omitempty"`     // sleep: seconds
	Text   string  `json:"text,omitempty"`   // edit: new comment
	EndOff int64   `json:"end_off,omitempty"`
}

// c11SilTrack follows which reference matcher sets belong to which id.
type c11SilTrack struct {
	ids  []string                   // ids handed out by Set, in order
	sets map[string][][]ref.Matcher // id -> reference matcher sets (API-created ids)
	errs []string                   // unexpected API errors (generator bugs, not violations)
}

func c11NewSilences(retention time.Duration, snapshot []byte, snapshotFile string) (*silence.Silences, error) {
	o := silence.Options{Retention: retention, Metrics: prometheus.NewRegistry(), Logger: nopLog, EventRecorder: eventrecorder.NopRecorder()}
	if snapshot != nil {
		o.SnapshotReader = bytes.NewReader(snapshot)
	}
	o.SnapshotFile = snapshotFile
	return silence.New(o)
}

// c11ApplySilOps drives the real API. sleep advances time (virtual in a
// bubble, never used by the crash helper).
func c11ApplySilOps(s *silence.Silences, base time.Time, ops []c11SilOp, tr *c11SilTrack, sleep func(time.Duration)) {
	if tr.sets == nil {
		tr.sets = map[string][][]ref.Matcher{}
	}
	pick := func(i int) string {
		if len(tr.ids) == 0 {
			return ""
		}
		return tr.ids[((i%len(tr.ids))+len(tr.ids))%len(tr.ids)]
	}
	for i, op := range ops {
		c11ApplySilOp(s, base, i, op, tr, pick, sleep)
		// Two updates of one id at the same clock reading cannot be told apart by
		// the store (last-writer-wins on updated_at); a real clock always moves
		// between two API calls, the virtual one is moved here.
		if sleep != nil && op.Kind != "sleep" {
			sleep(time.Second)
		}
	}
}

func c11ApplySilOp(s *silence.Silences, base time.Time, i int, op c11SilOp, tr *c11SilTrack, pick func(int) string, sleep func(time.Duration)) {
	ctx := context.Background()
	{
		switch op.Kind {
		case "set":
			arg := op.Sil.c11SetArg(base)
			if err := s.Set(ctx, arg); err != nil {
				tr.errs = append(tr.errs, fmt.Sprintf("op %d set: %v", i, err))
				return
			}
			tr.ids = append(tr.ids, arg.Id)
			tr.sets[arg.Id] = op.Sil.Sets
		case "edit", "replace":
			id := pick(op.Target)
			if id == "" {
				return
			}
			cur, err := s.QueryOne(ctx, silence.QIDs(id))
			if err != nil {
				return // collected by GC
			}
			sets := tr.sets[id]
			if op.Kind == "replace" {
				cur.MatcherSets = c11PbSets(op.Sil.Sets)
				sets = op.Sil.Sets
			}
			cur.Comment = op.Text
			cur.EndsAt = c11At(base, op.EndOff, 0)
			if err := s.Set(ctx, cur); err != nil {
				tr.errs = append(tr.errs, fmt.Sprintf("op %d %s: %v", i, op.Kind, err))
				return
			}
			if cur.Id != id {
				tr.ids = append(tr.ids, cur.Id)
			}
			tr.sets[cur.Id] = sets
		case "expire":
			if id := pick(op.Target); id != "" {
				if err := s.Expire(ctx, id); err != nil && !errors.Is(err, silence.ErrNotFound) {
					tr.errs = append(tr.errs, fmt.Sprintf("op %d expire: %v", i, err))
				}
			}
		case "merge":
			if err := s.Merge(c11Delim(op.Sil.c11Wire(base))); err != nil {
				tr.errs = append(tr.errs, fmt.Sprintf("op %d merge: %v", i, err))
			}
		case "sleep":
			if sleep != nil {
				sleep(time.Duration(op.Dt) * time.Second)
			}
		case "gc":
			if _, err := s.GC(); err != nil {
				tr.errs = append(tr.errs, fmt.Sprintf("op %d gc: %v", i, err))
			}
		}
	}
}

// c11QuerySil returns every silence of the store by id.
func c11QuerySil(s *silence.Silences) (map[string]*silencepb.Silence, error) {
	sils, _, err := s.Query(context.Background())
	if err != nil {
		return nil, err
	}
	out := make(map[string]*silencepb.Silence, len(sils))
	for _, sil := range sils {
		if _, dup := out[sil.Id]; dup {
			return nil, fmt.Errorf("Query returned id %q twice", sil.Id)
		}
		out[sil.Id] = sil
	}
	return out, nil
}

// c11DiffSil compares two query results on every id not in ignore. Returns a
// description of the first difference, "" if equal.
func c11DiffSil(want, got map[string]*silencepb.Silence, ignore map[string]bool) string {
	ids := make([]string, 0, len(want))
	for id := range want {
		ids = append(ids, id)
	}
	sort.Strings(ids)
	for _, id := range ids {
		if ignore[id] {
			continue
		}
		g, ok := got[id]
		if !ok {
			return fmt.Sprintf("silence %q missing (want %s)", id, c11Short(want[id]))
		}
		if !proto.Equal(want[id], g) {
			return fmt.Sprintf("silence %q differs: want %s got %s", id, c11Short(want[id]), c11Short(g))
		}
	}
	gids := make([]string, 0, len(got))
	for id := range got {
		gids = append(gids, id)
	}
	sort.Strings(gids)
	for _, id := range gids {
		if _, ok := want[id]; !ok && !ignore[id] {
			return fmt.Sprintf("unexpected silence %q: %s", id, c11Short(got[id]))
		}
	}
	return ""
}

func c11Short(m proto.Message) string {
	s := fmt.Sprintf("%v", m)
	if len(s) > 400 {
		s = s[:400] + "…"
	}
	return s
}

// c11UniverseProbes: all 64 label sets over a,b,c x {absent,x,y,z}.
func c11UniverseProbes() []map[string]string {
	vals := append([]string{""}, gen.UniValues...)
	var out []map[string]string
	for _, a := range vals {
		for _, b := range vals {
			for _, c := range vals {
				ls := map[string]string{}
				for n, v := range map[string]string{"a": a, "b": b, "c": c} {
					if v != "" {
						ls[n] = v
					}
				}
				out = append(out, ls)
			}
		}
	}
	return out
}

// c11RefMutes: the silence semantics of the statement ("silences keep muting")
// — an alert is muted iff some silence is active (start <= t <= end; the
// probes never sit on a boundary) and one of its matcher sets matches, all
// matchers of the set holding, a missing label reading as "".
func c11RefMutes(sils map[string]*silencepb.Silence, sets map[string][][]ref.Matcher, lset map[string]string, now time.Time) (bool, bool) {
	muted := false
	for id, sil := range sils {
		rs, ok := sets[id]
		if !ok {
			return false, false
		}
		if now.Before(sil.StartsAt.AsTime()) || now.After(sil.EndsAt.AsTime()) {
			continue
		}
		if ref.MatchAny(rs, lset) {
			muted = true
		}
	}
	return muted, true
}

// --------------------------------------------------------------------- nflog

type c11Recv struct {
	Group       string `json:"group"`
	Integration string `json:"integration"`
	Idx         uint32 `json:"idx"`
}

func (r c11Recv) pb() *nflogpb.Receiver {
	return &nflogpb.Receiver{GroupName: r.Group, Integration: r.Integration, Idx: r.Idx}
}

type c11Key struct {
	Recv int    `json:"recv"`
	GKey string `json:"gkey"`
}

type c11Val struct {
	Kind  string `json:"kind"` // str | int | float
	S     string `json:"s,omitempty"`
	I     int64  `json:"i,omitempty"`
	FBits uint64 `json:"fbits,omitempty"`
}

func c11PbData(d map[string]c11Val) map[string]*nflogpb.ReceiverDataValue {
	if d == nil {
		return nil
	}
	out := map[string]*nflogpb.ReceiverDataValue{}
	for k, v := range d {
		switch v.Kind {
		case "int":
			out[k] = &nflogpb.ReceiverDataValue{Value: &nflogpb.ReceiverDataValue_IntVal{IntVal: v.I}}
		case "float":
			out[k] = &nflogpb.ReceiverDataValue{Value: &nflogpb.ReceiverDataValue_DoubleVal{DoubleVal: math.Float64frombits(v.FBits)}}
		default:
			out[k] = &nflogpb.ReceiverDataValue{Value: &nflogpb.ReceiverDataValue_StrVal{StrVal: v.S}}
		}
	}
	return out
}

func c11Store(d map[string]c11Val) *nflog.Store {
	if d == nil {
		return nil
	}
	st := nflog.NewStore(nil)
	for k, v := range d {
		switch v.Kind {
		case "int":
			st.SetInt(k, v.I)
		case "float":
			st.SetFloat(k, math.Float64frombits(v.FBits))
		default:
			st.SetStr(k, v.S)
		}
	}
	return st
}

// c11NfEntry is a hand-written wire record of the notification log.
type c11NfEntry struct {
	Key          int               `json:"key"`
	TsOff        int64             `json:"ts_off"`
	TsNs         int32             `json:"ts_ns,omitempty"`
	ExpOff       int64             `json:"exp_off"`
	Firing       []uint64          `json:"firing,omitempty"`
	Resolved     []uint64          `json:"resolved,omitempty"`
	GroupHash    []byte            `json:"group_hash,omitempty"` // deprecated field, old files carry it
	ResolvedFlag bool              `json:"resolved_flag,omitempty"`
	Data         map[string]c11Val `json:"data,omitempty"`
}

type c11NfUniverse struct {
	Recvs []c11Recv `json:"recvs"`
	Keys  []c11Key  `json:"keys"`
}

func (e *c11NfEntry) c11Wire(base time.Time, u *c11NfUniverse) *nflogpb.MeshEntry {
	k := u.Keys[e.Key]
	return &nflogpb.MeshEntry{
		Entry: &nflogpb.Entry{
			GroupKey: []byte(k.GKey), Receiver: u.Recvs[k.Recv].pb(),
			GroupHash: e.GroupHash, Resolved: e.ResolvedFlag,
			Timestamp:    c11At(base, e.TsOff, e.TsNs),
			FiringAlerts: e.Firing, ResolvedAlerts: e.Resolved,
			ReceiverData: c11PbData(e.Data),
		},
		ExpiresAt: c11At(base, e.ExpOff, 0),
	}
}

func c11NfFile(base time.Time, u *c11NfUniverse, recs []c11NfEntry) []byte {
	var msgs []proto.Message
	for i := range recs {
		msgs = append(msgs, recs[i].c11Wire(base, u))
	}
	return c11Delim(msgs...)
}

type c11NfOp struct {
	Kind      string            `json:"kind"` // log | notify | merge | sleep | gc
	Key       int               `json:"key,omitempty"`
	Firing    []uint64          `json:"firing,omitempty"`   // log
	Resolved  []uint64          `json:"resolved,omitempty"` // log
	Data      map[string]c11Val `json:"data,omitempty"`     // log
	ExpirySec int64             `json:"expiry_sec,omitempty"`
	Alerts    []int             `json:"alerts,omitempty"`     // notify: indexes into the alert universe
	ResolvedN int               `json:"resolved_n,omitempty"` // notify: the first n of Alerts are resolved
	RepeatSec int64             `json:"repeat_sec,omitempty"` // notify
	Entry     *c11NfEntry       `json:"entry,omitempty"`      // merge
	Dt        int64             `json:"dt,omitempty"`
}

func c11NewLog(retention time.Duration, snapshot []byte, snapshotFile string) (*nflog.Log, error) {
	o := nflog.Options{Retention: retention, Metrics: prometheus.NewRegistry(), Logger: nopLog}
	if snapshot != nil {
		o.SnapshotReader = bytes.NewReader(snapshot)
	}
	o.SnapshotFile = snapshotFile
	return nflog.New(o)
}

const c11NAlerts = 5

// c11Alerts: the first nResolved of idx are resolved, the others firing.
func c11Alerts(idx []int, nResolved int, now time.Time) []*alert.Alert {
	var out []*alert.Alert
	for i, a := range idx {
		al := &alert.Alert{Alert: model.Alert{
			Labels:   model.LabelSet{"alertname": model.LabelValue(fmt.Sprintf("A%d", a%c11NAlerts))},
			StartsAt: now.Add(-2 * time.Hour),
		}, UpdatedAt: now}
		if i < nResolved {
			al.EndsAt = now.Add(-time.Hour)
		}
		out = append(out, al)
	}
	return out
}

type c11SendResolved bool

func (s c11SendResolved) SendResolved() bool { return bool(s) }

// c11Dedup asks the real DedupStage (the consumer of the log) whether a flush
// of the given alerts would notify.
func c11Dedup(l *nflog.Log, u *c11NfUniverse, key int, alerts []*alert.Alert, repeat time.Duration, sendResolved bool, now time.Time) (notify_ bool, reason string, ctx context.Context, err error) {
	k := u.Keys[key]
	st := notify.NewDedupStage(c11SendResolved(sendResolved), l, u.Recvs[k.Recv].pb())
	ctx = notify.WithGroupKey(context.Background(), k.GKey)
	ctx = notify.WithRepeatInterval(ctx, repeat)
	ctx = notify.WithNow(ctx, now)
	ctx, out, err := st.Exec(ctx, nopLog, alerts...)
	if err != nil {
		return false, "", ctx, err
	}
	r, _ := notify.NotificationReason(ctx)
	return len(out) > 0, r.String(), ctx, nil
}

type c11NfTrack struct {
	errs []string
	// lastNotify[key]: the alerts (all firing) of the last successful pipeline
	// notification for the key, its instant and repeat interval.
	lastNotify map[int]c11Sent
}

type c11Sent struct {
	Alerts []int
	At     time.Time
	Repeat time.Duration
}

func c11ApplyNfOps(l *nflog.Log, base time.Time, u *c11NfUniverse, ops []c11NfOp, tr *c11NfTrack, sleep func(time.Duration)) {
	if tr.lastNotify == nil {
		tr.lastNotify = map[int]c11Sent{}
	}
	for i, op := range ops {
		c11ApplyNfOp(l, base, u, i, op, tr, sleep)
		if sleep != nil && op.Kind != "sleep" {
			sleep(time.Second) // see c11ApplySilOps
		}
	}
}

func c11ApplyNfOp(l *nflog.Log, base time.Time, u *c11NfUniverse, i int, op c11NfOp, tr *c11NfTrack, sleep func(time.Duration)) {
	{
		switch op.Kind {
		case "log":
			k := u.Keys[op.Key]
			if err := l.Log(u.Recvs[k.Recv].pb(), k.GKey, op.Firing, op.Resolved, c11Store(op.Data), time.Duration(op.ExpirySec)*time.Second); err != nil {
				tr.errs = append(tr.errs, fmt.Sprintf("op %d log: %v", i, err))
			}
			delete(tr.lastNotify, op.Key)
		case "notify":
			// the real pipeline around the log: DedupStage decides, SetNotifiesStage records
			now := time.Now()
			alerts := c11Alerts(op.Alerts, op.ResolvedN, now)
			repeat := time.Duration(op.RepeatSec) * time.Second
			ok, _, ctx, err := c11Dedup(l, u, op.Key, alerts, repeat, true, now)
			if err != nil {
				tr.errs = append(tr.errs, fmt.Sprintf("op %d dedup: %v", i, err))
				return
			}
			if !ok {
				return
			}
			k := u.Keys[op.Key]
			if _, _, err := notify.NewSetNotifiesStage(l, u.Recvs[k.Recv].pb()).Exec(ctx, nopLog, alerts...); err != nil {
				tr.errs = append(tr.errs, fmt.Sprintf("op %d set-notifies: %v", i, err))
				return
			}
			// the log keeps an entry from a peer whose clock is ahead instead of ours:
			// only count the notification as recorded if the log now answers with it
			recorded := false
			if es, qerr := l.Query(nflog.QReceiver(u.Recvs[k.Recv].pb()), nflog.QGroupKey(k.GKey)); qerr == nil && len(es) == 1 {
				firing, _ := notify.FiringAlerts(ctx)
				recorded = !es[0].Timestamp.AsTime().Before(now) && fmt.Sprint(es[0].FiringAlerts) == fmt.Sprint(firing)
			}
			if recorded && op.ResolvedN == 0 && len(op.Alerts) > 0 {
				tr.lastNotify[op.Key] = c11Sent{Alerts: op.Alerts, At: now, Repeat: repeat}
			} else {
				delete(tr.lastNotify, op.Key)
			}
		case "merge":
			if err := l.Merge(c11Delim(op.Entry.c11Wire(base, u))); err != nil {
				tr.errs = append(tr.errs, fmt.Sprintf("op %d merge: %v", i, err))
			}
			delete(tr.lastNotify, op.Entry.Key)
		case "sleep":
			if sleep != nil {
				sleep(time.Duration(op.Dt) * time.Second)
			}
		case "gc":
			if _, err := l.GC(); err != nil {
				tr.errs = append(tr.errs, fmt.Sprintf("op %d gc: %v", i, err))
			}
		}
	}
}

// c11QueryNf returns the log's answer for every key of the universe (nil = not found).
func c11QueryNf(l *nflog.Log, u *c11NfUniverse) ([]*nflogpb.Entry, error) {
	out := make([]*nflogpb.Entry, len(u.Keys))
	for i, k := range u.Keys {
		es, err := l.Query(nflog.QReceiver(u.Recvs[k.Recv].pb()), nflog.QGroupKey(k.GKey))
		if errors.Is(err, nflog.ErrNotFound) {
			continue
		}
		if err != nil {
			return nil, fmt.Errorf("key %d: %w", i, err)
		}
		if len(es) != 1 {
			return nil, fmt.Errorf("key %d: %d entries", i, len(es))
		}
		out[i] = proto.Clone(es[0]).(*nflogpb.Entry)
	}
	return out, nil
}

// c11DiffNf compares the answers per key. free[k]: want[k] is an entry that is
// already past its expiry — it may have been collected: got[k] may be absent.
func c11DiffNf(want, got []*nflogpb.Entry, free map[int]bool) string {
	for i := range want {
		switch {
		case want[i] == nil && got[i] == nil:
		case want[i] == nil:
			return fmt.Sprintf("key %d: unexpected entry %s", i, c11Short(got[i]))
		case got[i] == nil:
			if !free[i] {
				return fmt.Sprintf("key %d: entry missing (want %s)", i, c11Short(want[i]))
			}
		case !proto.Equal(want[i], got[i]):
			return fmt.Sprintf("key %d: entry differs: want %s got %s", i, c11Short(want[i]), c11Short(got[i]))
		}
	}
	return ""
}

// ------------------------------------------------------------- wire framing

// c11Frames splits a varint-length-delimited stream with encoding/binary
// (independently of protowire/protodelim). It returns the end offset of every
// complete record and whether the stream ends exactly on a record boundary.
// ok=false: the framing itself is not decidable (over-long varint).
func c11Frames(b []byte) (ends []int, clean, ok bool) {
	pos := 0
	for pos < len(b) {
		n, w := binary.Uvarint(b[pos:])
		if w == 0 {
			return ends, false, true // stream ends inside the length prefix
		}
		if w < 0 {
			return ends, false, false
		}
		if n > uint64(len(b)) || pos+w+int(n) > len(b) {
			return ends, false, true // payload cut short
		}
		pos += w + int(n)
		ends = append(ends, pos)
	}
	return ends, true, true
}

// ------------------------------------------------------------------ generators

var c11HostileNames = []string{"名", "with space", "a.b/c", "é", "x-y", "🙂"}

func c11GenSets(t *rapid.T, hostile bool) [][]ref.Matcher {
	nsets := rapid.SampledFrom([]int{1, 1, 1, 2, 2, 3}).Draw(t, "nsets")
	var sets [][]ref.Matcher
	for i := 0; i < nsets; i++ {
		n := rapid.IntRange(1, 3).Draw(t, "nm")
		var set []ref.Matcher
		for j := 0; j < n; j++ {
			if hostile {
				m := ref.Matcher{Op: rapid.SampledFrom(gen.Ops).Draw(t, "op"), Name: rapid.SampledFrom(c11HostileNames).Draw(t, "hname")}
				if m.Op == "=" || m.Op == "!=" {
					m.Value = gen.Text(6).Filter(func(s string) bool { return model.LabelValue(s).IsValid() }).Draw(t, "hval")
				} else {
					m.Re = gen.Re(gen.HostileAlphabet, rapid.IntRange(0, 2).Draw(t, "depth")).Draw(t, "hre")
				}
				set = append(set, m)
			} else {
				set = append(set, gen.UniMatcher().Draw(t, "m"))
			}
		}
		// Set refuses a set whose matchers all match the empty string: make sure
		// one does not (construction, not filtering).
		allEmpty := true
		for _, m := range set {
			switch m.Op {
			case "=":
				allEmpty = allEmpty && m.Value == ""
			case "=~":
				allEmpty = allEmpty && m.Re.Match("")
			default:
				allEmpty = false
			}
		}
		if allEmpty {
			set = append(set, ref.Matcher{Op: "=", Name: "a", Value: "x"})
		}
		sets = append(sets, set)
	}
	return sets
}

func c11GenText(t *rapid.T, label string, max int) string {
	return gen.Text(max).Filter(func(s string) bool { return model.LabelValue(s).IsValid() }).Draw(t, label)
}

// c11GenSilBody draws everything but ids and instants.
func c11GenSilBody(t *rapid.T) c11Sil {
	hostile := rapid.IntRange(0, 4).Draw(t, "hostile") == 0
	s := c11Sil{Sets: c11GenSets(t, hostile)}
	if rapid.IntRange(0, 5).Draw(t, "recvsets") == 0 {
		s.RecvSets = c11GenSets(t, false)[:1]
	}
	if rapid.IntRange(0, 3).Draw(t, "emptyComment") != 0 {
		s.Comment = c11GenText(t, "comment", 12)
	}
	s.CreatedBy = rapid.SampledFrom([]string{"", "me", "名前", "a\"b\\c\n"}).Draw(t, "by")
	if rapid.IntRange(0, 2).Draw(t, "ann") == 0 {
		n := rapid.IntRange(1, 3).Draw(t, "nann")
		s.Annotations = map[string]string{}
		for i := 0; i < n; i++ {
			s.Annotations[rapid.SampledFrom([]string{"k", "runbook", "名", "", "a b"}).Draw(t, "ak")] = c11GenText(t, "av", 8)
		}
	}
	return s
}

var c11Ns = []int32{0, 0, 1, 123456789}

// c11GenWireSil draws a hand-written record. expired: expires_at long before
// the base instant (only legal in an initial snapshot file).
func c11GenWireSil(t *rapid.T, id string, allowExpired bool) c11Sil {
	s := c11GenSilBody(t)
	s.ID = id
	s.Format = rapid.SampledFrom([]string{"new", "new", "old", "old", "comments"}).Draw(t, "format")
	if s.Format != "new" {
		s.Sets = s.Sets[:1]
		s.RecvSets = nil
		s.Annotations = nil
	}
	switch rapid.IntRange(0, 3).Draw(t, "phase") {
	case 0: // pending
		s.StartOff, s.EndOff = rapid.Int64Range(3600, 7200).Draw(t, "so"), rapid.Int64Range(7201, 20000).Draw(t, "eo")
		s.ExpOff = s.EndOff + 7200
	case 1, 2: // active
		s.StartOff, s.EndOff = -rapid.Int64Range(3600, 7200).Draw(t, "so"), rapid.Int64Range(3600, 20000).Draw(t, "eo")
		s.ExpOff = s.EndOff + 7200
	default: // ended, retained
		s.StartOff, s.EndOff = -rapid.Int64Range(20000, 30000).Draw(t, "so"), -rapid.Int64Range(3600, 7200).Draw(t, "eo")
		s.ExpOff = rapid.Int64Range(3600, 7200).Draw(t, "xo")
		if allowExpired && rapid.Bool().Draw(t, "expired") {
			s.ExpOff = -rapid.Int64Range(3600, 3700).Draw(t, "xo2")
		}
	}
	s.StartNs, s.EndNs = rapid.SampledFrom(c11Ns).Draw(t, "sns"), rapid.SampledFrom(c11Ns).Draw(t, "ens")
	s.UpdOff, s.UpdNs = -rapid.Int64Range(3600, 9000).Draw(t, "uo"), rapid.SampledFrom(c11Ns).Draw(t, "uns")
	return s
}

// c11GenSetSil draws the argument of a Set call: start in the past (clamped to
// now by Set), now-ish, or in the future; end at least an hour away.
func c11GenSetSil(t *rapid.T) c11Sil {
	s := c11GenSilBody(t)
	switch rapid.IntRange(0, 2).Draw(t, "phase") {
	case 0:
		s.StartOff = rapid.Int64Range(3600, 7200).Draw(t, "so")
		s.EndOff = s.StartOff + rapid.Int64Range(1, 20000).Draw(t, "len")
	default:
		s.StartOff = -rapid.Int64Range(0, 7200).Draw(t, "so")
		s.EndOff = rapid.Int64Range(3600, 20000).Draw(t, "eo")
	}
	s.StartNs, s.EndNs = rapid.SampledFrom(c11Ns).Draw(t, "sns"), rapid.SampledFrom(c11Ns).Draw(t, "ens")
	return s
}

// c11GenNfUniverse: receiver names without ':' and integration names without
// ':' or '/', so that distinct (group key, receiver) pairs never share the
// log's internal key (that collision is C10's subject, not C11's).
func c11GenNfUniverse(t *rapid.T) c11NfUniverse {
	var u c11NfUniverse
	nr := rapid.IntRange(1, 3).Draw(t, "nrecv")
	for i := 0; i < nr; i++ {
		u.Recvs = append(u.Recvs, c11Recv{
			Group:       rapid.SampledFrom([]string{"team-a", "受信者", "", "web/hook", "r \"q\""}).Draw(t, "rg") + fmt.Sprint(i),
			Integration: rapid.SampledFrom([]string{"webhook", "email", "slack", ""}).Draw(t, "ri"),
			Idx:         rapid.SampledFrom([]uint32{0, 1, 7, math.MaxUint32}).Draw(t, "rx"),
		})
	}
	nk := rapid.IntRange(1, 5).Draw(t, "nkeys")
	for i := 0; i < nk; i++ {
		u.Keys = append(u.Keys, c11Key{
			Recv: rapid.IntRange(0, nr-1).Draw(t, "kr"),
			GKey: rapid.SampledFrom([]string{`{}:{}`, `{}/{a="x"}:{b="y"}`, `{}/{名="値"}:{}`, "k", "k\x00z"}).Draw(t, "gk") + fmt.Sprint(i),
		})
	}
	return u
}

var c11HashPool = []uint64{0, 1, 2, 127, 128, 300, 1 << 32, math.MaxUint64, 0xdeadbeefcafef00d}

func c11GenHashes(t *rapid.T, label string) []uint64 {
	return rapid.SliceOfN(rapid.SampledFrom(c11HashPool), 0, 4).Draw(t, label)
}

func c11GenData(t *rapid.T) map[string]c11Val {
	if rapid.Bool().Draw(t, "nodata") {
		return nil
	}
	d := map[string]c11Val{}
	n := rapid.IntRange(0, 3).Draw(t, "ndata")
	for i := 0; i < n; i++ {
		k := rapid.SampledFrom([]string{"threadTs", "id", "", "名", "count"}).Draw(t, "dk")
		switch rapid.IntRange(0, 2).Draw(t, "dkind") {
		case 0:
			d[k] = c11Val{Kind: "str", S: c11GenText(t, "ds", 8)}
		case 1:
			d[k] = c11Val{Kind: "int", I: rapid.SampledFrom([]int64{0, 1, -1, math.MaxInt64, math.MinInt64, 1700000000}).Draw(t, "di")}
		default:
			d[k] = c11Val{Kind: "float", FBits: math.Float64bits(rapid.SampledFrom([]float64{0, math.Copysign(0, -1), 1.5, math.Inf(1), math.NaN(), math.SmallestNonzeroFloat64, -1e300}).Draw(t, "df"))}
		}
	}
	return d
}

func c11GenWireEntry(t *rapid.T, u *c11NfUniverse, allowExpired bool) c11NfEntry {
	e := c11NfEntry{
		Key:   rapid.IntRange(0, len(u.Keys)-1).Draw(t, "ekey"),
		TsOff: -rapid.Int64Range(3600, 9000).Draw(t, "ets"), TsNs: rapid.SampledFrom(c11Ns).Draw(t, "etns"),
		ExpOff: rapid.Int64Range(3600, 9000).Draw(t, "eexp"),
		Firing: c11GenHashes(t, "ef"), Resolved: c11GenHashes(t, "er"), Data: c11GenData(t),
	}
	if rapid.IntRange(0, 2).Draw(t, "legacy") == 0 {
		e.GroupHash = rapid.SliceOfN(rapid.Byte(), 1, 8).Draw(t, "gh")
		e.ResolvedFlag = rapid.Bool().Draw(t, "rf")
	}
	if allowExpired && rapid.IntRange(0, 3).Draw(t, "expired") == 0 {
		e.ExpOff = -rapid.Int64Range(3600, 3700).Draw(t, "eexp2")
	}
	return e
}

func c11GenNfOp(t *rapid.T, u *c11NfUniverse, withTime bool) c11NfOp {
	hi := 3
	if withTime {
		hi = 5
	}
	switch k := rapid.IntRange(0, hi).Draw(t, "nfkind"); k {
	case 0:
		return c11NfOp{Kind: "log", Key: rapid.IntRange(0, len(u.Keys)-1).Draw(t, "key"),
			Firing: c11GenHashes(t, "f"), Resolved: c11GenHashes(t, "r"), Data: c11GenData(t),
			ExpirySec: rapid.SampledFrom([]int64{0, 3600, 7200, 100000}).Draw(t, "expiry")}
	case 1, 2:
		idx := rapid.SliceOfNDistinct(rapid.IntRange(0, c11NAlerts-1), 0, 4, rapid.ID[int]).Draw(t, "alerts")
		return c11NfOp{Kind: "notify", Key: rapid.IntRange(0, len(u.Keys)-1).Draw(t, "key"), Alerts: idx,
			ResolvedN: rapid.SampledFrom([]int{0, 0, 0, 1, 2}).Draw(t, "nres") % (len(idx) + 1),
			RepeatSec: rapid.SampledFrom([]int64{1800, 3600, 14400}).Draw(t, "repeat")}
	case 3:
		e := c11GenWireEntry(t, u, false)
		// a peer's entry may be newer or older than ours
		e.TsOff = rapid.Int64Range(-9000, 600).Draw(t, "mts")
		return c11NfOp{Kind: "merge", Entry: &e}
	case 4:
		return c11NfOp{Kind: "sleep", Dt: rapid.Int64Range(1, 120).Draw(t, "dt")}
	default:
		return c11NfOp{Kind: "gc"}
	}
}

// mergeID returns the id of a peer's silence and the matcher sets that id has:
// the matchers of a silence never change under one id (Set hands out a new id
// when they do), so all gossiped versions of an id carry the same matchers.
func c11GenSilOp(t *rapid.T, withTime bool, mergeID func() (string, [][]ref.Matcher)) c11SilOp {
	hi := 5
	if withTime {
		hi = 7
	}
	switch k := rapid.IntRange(0, hi).Draw(t, "silkind"); k {
	case 0, 1:
		s := c11GenSetSil(t)
		return c11SilOp{Kind: "set", Sil: &s}
	case 2:
		return c11SilOp{Kind: "edit", Target: rapid.IntRange(0, 50).Draw(t, "target"),
			Text: c11GenText(t, "text", 8), EndOff: rapid.Int64Range(7300, 30000).Draw(t, "end")}
	case 3:
		s := c11GenSetSil(t)
		return c11SilOp{Kind: "replace", Sil: &s, Target: rapid.IntRange(0, 50).Draw(t, "target"),
			Text: c11GenText(t, "text", 8), EndOff: rapid.Int64Range(7300, 30000).Draw(t, "end")}
	case 4:
		return c11SilOp{Kind: "expire", Target: rapid.IntRange(0, 50).Draw(t, "target")}
	case 5:
		id, sets := mergeID()
		s := c11GenWireSil(t, id, false)
		s.Sets = sets
		if len(sets) > 1 {
			s.Format = "new"
		}
		// a peer's version may be newer or older than what we hold
		s.UpdOff = rapid.Int64Range(-9000, 600).Draw(t, "mupd")
		return c11SilOp{Kind: "merge", Sil: &s}
	case 6:
		return c11SilOp{Kind: "sleep", Dt: rapid.Int64Range(1, 120).Draw(t, "dt")}
	default:
		return c11SilOp{Kind: "gc"}
	}
}

func c11HasLegacy(recs []c11Sil) bool {
	for _, r := range recs {
		if r.Format == "old" || r.Format == "comments" {
			return true
		}
	}
	return false
}

func c11Describe(errs []string) string { return strings.Join(errs, "; ") }
