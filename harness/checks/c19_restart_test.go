package checks

// C19 — crash / restart-on-the-same-address variant of the delivery sub-check.
//
// An instance dies without a graceful leave and is started again at once on the
// same ip:port. A restarted alertmanager gets a new random name, so for the
// other instances this is a NEW member at the address of a member they have not
// yet declared dead. While and after their failure detectors sort that out the
// restarted instance is a live, connected member: every update broadcast by
// anybody, small (gossiped) or oversized (sent to each peer over the reliable
// channel), must reach it, and its own updates must reach the others.
//
// The scenario type, the cluster runner, the oracle and the no-flake policy are
// those of TestC19Delivery (c19_delivery_test.go); this file only adds the
// generator and the test function.

import (
	"fmt"
	"sort"
	"testing"

	"pgregory.net/rapid"

	"verif/harness/pbt"
)

// c19GenGhostBatch generates a batch for the time in which the name of a crashed
// instance is (or recently was) listed by the live instances. memberlist keeps
// gossiping to such a name (until 30 s after it was declared dead), every gossip
// message is transmitted a fixed number of times (3), and the transmissions
// addressed to the dead name are lost: gossip is then best effort by design and
// anti-entropy (switched off here) is what repairs it. The batch is therefore
// shaped so that the first gossip round of every node still reaches every live
// node: all gossiped (small) messages of the batch together fit one gossip
// packet (so they never compete for a packet and no transmission of one is
// spent on a packet that goes to the dead name only), every other update is
// oversized (reliable send to every listed member: deterministic).
//
// By construction: one small and one oversized update of each state authored by
// survivors; with a restarted instance (the last of the live nodes) two updates
// authored by it, each tiny or oversized; 0-2 further oversized updates
// (new or extending/re-logging an existing item) by anybody; generated order.
func c19GenGhostBatch(t *rapid.T, live int, withRestarted bool) c19Step {
	survivors := live
	if withRestarted {
		survivors = live - 1
	}
	surv := func(label string) int { return rapid.IntRange(0, survivors-1).Draw(t, label) }
	bigSil := func(label string) int {
		if rapid.IntRange(0, 9).Draw(t, label+"Huge") == 0 {
			return rapid.IntRange(20000, 150000).Draw(t, label)
		}
		return rapid.IntRange(700, 6000).Draw(t, label)
	}
	bigNfl := func(label string) int {
		if rapid.IntRange(0, 9).Draw(t, label+"Huge") == 0 {
			return rapid.IntRange(2000, 15000).Draw(t, label)
		}
		return rapid.IntRange(80, 600).Draw(t, label)
	}
	ups := []c19Update{
		{Author: surv("a0"), Kind: "sil", Size: rapid.IntRange(0, 60).Draw(t, "fs")}, // part <= ~230 bytes
		{Author: surv("a1"), Kind: "sil", Size: bigSil("fl")},
		{Author: surv("a2"), Kind: "nfl", Size: rapid.IntRange(0, 4).Draw(t, "fns")}, // part <= ~150 bytes
		{Author: surv("a3"), Kind: "nfl", Size: bigNfl("fnl")},
	}
	if withRestarted {
		rs := c19Update{Author: live - 1, Kind: "sil", Size: rapid.IntRange(0, 60).Draw(t, "rs")}
		if rapid.Bool().Draw(t, "rsBig") {
			rs.Size = bigSil("rsl")
		}
		rn := c19Update{Author: live - 1, Kind: "nfl", Size: rapid.IntRange(0, 4).Draw(t, "rn")}
		if rapid.Bool().Draw(t, "rnBig") {
			rn.Size = bigNfl("rnl")
		}
		ups = append(ups, rs, rn)
	}
	for i, n := 0, rapid.IntRange(0, 2).Draw(t, "nExtra"); i < n; i++ {
		k := rapid.SampledFrom([]string{"sil", "nfl", "extend", "relog"}).Draw(t, "kind")
		u := c19Update{Author: rapid.IntRange(0, live-1).Draw(t, "author"), Kind: k, Ref: rapid.IntRange(0, 11).Draw(t, "ref")}
		if k == "sil" || k == "extend" {
			u.Size = bigSil("xl")
		} else {
			u.Size = bigNfl("xnl")
		}
		ups = append(ups, u)
	}
	return c19Step{Op: "update", Updates: rapid.Permutation(ups).Draw(t, "order")}
}

// genC19Restart draws a crash/restart scenario for the given transport.
//
// With the TLS transport two shapes differ (see c19RestartRule):
//   - no await_gone while nothing listens on the address of the crashed
//     instance: there the failure detector of a survivor usually never declares
//     the name dead (observed on the unchanged tree, not part of this property),
//     so the case would only ever be inconclusive;
//   - the batch right after the join is always present: it is the one in which
//     the survivors still hold pooled connections to the dead predecessor.
func genC19Restart(tls bool) func(t *rapid.T) c19DelScenario {
	return func(t *rapid.T) c19DelScenario { return c19GenRestart(t, tls) }
}

func c19GenRestart(t *rapid.T, tls bool) c19DelScenario {
	sc := c19DelScenario{
		TLS:      tls,
		GossipMs: rapid.SampledFrom([]int{50, 70, 100}).Draw(t, "gossipMs"),
		// --cluster.probe-interval / --cluster.probe-timeout defaults are 1 s / 500 ms
		ProbeMs:     rapid.SampledFrom([]int{1000, 1000, 1200}).Draw(t, "probeMs"),
		NoReconnect: true,
	}
	// 2-3 live instances (plus the dead name) after the restart: every live
	// instance is then among the (at most 3) targets of a gossip round
	n0 := rapid.SampledFrom([]int{2, 3, 3}).Draw(t, "n0")
	live := 0
	for i := 0; i < n0; i++ {
		sc.Steps = append(sc.Steps, c19Step{Op: "join", Known: c19GenKnown(t, live)})
		live++
	}
	sc.Steps = append(sc.Steps, c19GenBatch(t, true))
	// compound packets around the packet limit (c19GenCompound; the parts always
	// fit one packet together): before the crash and at the very end, TLS cases
	// both, plain cases each with probability 1/2
	if tls || rapid.Bool().Draw(t, "compoundBeforeCrash") {
		sc.Steps = append(sc.Steps, c19GenCompound(t, c19MaxPacket))
	}
	sc.Steps = append(sc.Steps, c19Step{Op: "crash", Slot: rapid.IntRange(0, live-1).Draw(t, "victim")})
	live--
	// usual: restarted at once, long before anybody declares the old name dead;
	// sometimes: only after the old name was declared dead
	goneFirst := rapid.IntRange(0, 9).Draw(t, "goneFirst") < 2 && !tls
	if goneFirst {
		sc.Steps = append(sc.Steps, c19Step{Op: "await_gone"})
	}
	if rapid.IntRange(0, 9).Draw(t, "downBatch") < 3 {
		// updates the crashed instance misses: it gets them from the full-state exchange of its join
		sc.Steps = append(sc.Steps, c19GenGhostBatch(t, live, false))
	}
	sc.Steps = append(sc.Steps, c19Step{Op: "restart", Slot: 0, SameAddr: true, Known: c19GenKnown(t, live),
		Snapshot: rapid.Bool().Draw(t, "fromSnapshot")})
	live++
	if tls {
		sc.Steps = append(sc.Steps, c19Step{Op: "warm"})
	}
	if !goneFirst {
		if rapid.IntRange(0, 9).Draw(t, "batchWhileListed") < 6 || tls {
			// as soon as everybody lists the new name, the old name usually still listed
			sc.Steps = append(sc.Steps, c19GenGhostBatch(t, live, true))
		}
		sc.Steps = append(sc.Steps, c19Step{Op: "await_gone"})
	}
	sc.Steps = append(sc.Steps, c19GenGhostBatch(t, live, true))
	if tls || rapid.Bool().Draw(t, "compoundAtEnd") {
		// like every batch after the crash: all gossiped parts of the batch fit one packet together
		sc.Steps = append(sc.Steps, c19GenCompound(t, c19MaxPacket))
	}
	return sc
}

const c19RestartRule = "scenario drawn by a rapid generator from the seed: 2-3 instances (generated join order and --cluster.peer subsets, probe interval 1-1.2 s, production default 1 s) exchange a first batch of 6-10 updates with sizes swept across the 700-byte limit; one generated instance is hard-crashed (its goroutines stop and its sockets close, no leave message); a NEW instance with a NEW name is started on the SAME ip:port, from the snapshot of the old one or empty, wired the same way, and joins a generated subset of the survivors - at once (80%, the survivors still list the old name as a member) or after the old name was declared dead (20%); 30% of the cases have a batch authored while the instance is down. The harness waits until every live instance lists every live name. Batches after the crash contain, by construction, one small and one oversized silence and notification-log update authored by survivors and two updates authored by the restarted instance (each small or oversized) plus 0-2 further oversized updates (new items, extended silences, re-logged entries): one batch right away while the old name may still be listed (60% of the at-once cases) and always one after no live instance lists the old name any more. memberlist keeps gossiping to a dead name until 30 s after it was declared dead and spends a fixed number (3) of transmissions per message, so gossip is best effort in that time and anti-entropy repairs it; to keep gossip delivery certain without anti-entropy the small updates of such a batch together fit one gossip packet and at most 3 instances are live (every live instance is a target of every gossip round). Compound packets (see C19Delivery: a QUIET batch in which one author queues two or three new incompressible silences back to back into empty gossip queues, sized so that the compound packet memberlist builds from them has a size drawn uniformly from 1330..1405 bytes - always one packet, like every batch after the crash; the harness waits before and after it until every gossip queue is empty, so its near-limit retransmissions never compete with the next batch while a dead name is a gossip target): one right before the crash and one at the very end, TLS cases both, plain cases each with probability 1/2; classes compound-near-packet-limit(:tls), compound-packet-bytes:<bin>, compound-tls-frame-above-1400. Periodic push/pull is off (24 h) and --cluster.reconnect-interval=0, so neither anti-entropy nor a re-join with the address of the dead name can mask a broken gossip or reliable-send path; every gossip queue is emptied before the restart so only the full-state exchange can serve the joiner. Oracle (that of C19Delivery): the restarted instance holds the complete state after its join; after every batch every live node answers the query for every item authored so far with the author's version (proto-equal); oversized_gossip_message_sent_total >= oversized payloads x live peers, dropped_total = 0. While a crashed name is still listed the premise 'stayed connected' is judged by name: every live node lists every live name, peers_joined_total unchanged, peers_left_total grew by no more than the crashed names that went away - otherwise the case is inconclusive. Non-trivial: the restart on the same address happened and, after no crashed name was listed any more, >=1 normal and >=1 oversized update were verified on every live node. A miss is retried twice from scratch with doubled deadlines (20/40/80 s); three misses = violation; environment errors (the port cannot be bound again, membership that does not converge, a failure detector that needs longer than twice the deadline) = inconclusive case; more than half of the cases inconclusive = inconclusive run. Transport: every third case (case index + seed = 0 mod 3) runs with every instance on the TLS gossip transport (--cluster.tls-config, mutual TLS with a throw-away CA; all packets over one pooled TCP/TLS connection per address), the others on memberlist's UDP/TCP transport; same oracle, classes transport:tls / transport:plain. The survivors of a TLS case hold pooled connections to the address of the crashed instance; when it crashes the harness shuts down the connections it had accepted (what the kernel does for a dead process), so the survivors get FIN/RST. TLS cases always restart at once (with TLS a survivor usually never declares a name dead while nothing listens on its address - membership, not part of this property), always have the batch right after the join, and between the restart and that batch every survivor pings the restarted instance through memberlist until one ping is acknowledged (at most 6, nothing judged, step 'warm'): the transport notices a dead pooled connection only through a failing write, so the first packet of every survivor after the restart is lost silently and the second fails; the pings spend that window (findings/C19-tls-restart-first-packets-lost.json is the scenario without them). After that every update, small ones included, authored by a survivor right after the join and after the old name is gone, must reach the restarted instance."

func TestC19Restart(t *testing.T) {
	const name = "C19Restart"
	defer c19TLSCleanup()
	if pbt.Replaying() {
		var sc c19DelScenario
		if !pbt.ReplayScenario(name, &sc) {
			t.Skip("replay file is for another check")
		}
		v, env, _, _ := c19JudgeDelivery(sc)
		if v != nil {
			fmt.Printf("REPLAY-RAN check=%s violations=1\n", name)
			fmt.Printf("REPLAY-VIOLATION [%s] %s\n", v.Kind, v.Message)
			t.Fatalf("replay fails: [%s] %s", v.Kind, v.Message)
		}
		if env != "" {
			t.Skipf("replay inconclusive: %s", env)
		}
		fmt.Printf("REPLAY-RAN check=%s violations=0\n", name)
		return
	}
	cases := c19FlagInt("rapid.checks", 2)
	seed := c19FlagInt("rapid.seed", 1)
	m := pbt.NewManual("C19", name, c19RestartRule)
	defer m.Flush()
	gens := map[bool]*rapid.Generator[c19DelScenario]{false: rapid.Custom(genC19Restart(false)), true: rapid.Custom(genC19Restart(true))}
	inconclusive, retried := 0, 0
	for i := 0; i < cases; i++ {
		sc := gens[c19UseTLS(seed, i)].Example(seed*7919 + i)
		v, env, c, retries := c19JudgeDelivery(sc)
		retried += retries
		m.Set("retried_attempts", retried)
		if len(c19RetryReasons) > 0 {
			m.Set("retried_reasons", c19RetryReasons)
		}
		if v != nil {
			m.Violation(t, sc, *v)
			return
		}
		if env != "" {
			inconclusive++
			m.Set("inconclusive_cases", inconclusive)
			t.Logf("case %d inconclusive (skipped): %s", i, env)
			continue
		}
		var cls []string
		for k := range c.classes {
			cls = append(cls, k)
		}
		sort.Strings(cls)
		cls = append(cls, fmt.Sprintf("live-at-end=%d", len(c.live)), c19TransportClass(sc))
		if sc.TLS && c.classes["compound-near-packet-limit"] {
			cls = append(cls, "compound-near-packet-limit:tls")
		}
		if c19Compounds = append(c19Compounds, c.compounds...); len(c19Compounds) > 0 && len(c19Compounds) <= 96 {
			m.Set("compound_packets", c19Compounds)
		}
		nontrivial := c.restarted != nil && c.markGone != nil &&
			c.overNormal[0] > c.markGone[0] && c.overNormal[1] > c.markGone[1]
		m.Case(sc, nontrivial, cls...)
	}
	if inconclusive*2 > cases {
		t.Fatalf("INCONCLUSIVE: %d of %d cases hit environment errors", inconclusive, cases)
	}
}
