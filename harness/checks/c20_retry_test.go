package checks

import (
	"context"
	"errors"
	"fmt"
	"net/url"
	"sync"
	"testing"
	"testing/synctest"
	"time"

	"github.com/prometheus/client_golang/prometheus"
	"github.com/prometheus/common/model"
	"pgregory.net/rapid"

	"github.com/prometheus/alertmanager/eventrecorder"
	"github.com/prometheus/alertmanager/featurecontrol"
	"github.com/prometheus/alertmanager/notify"
	"github.com/prometheus/alertmanager/types"

	"verif/harness/pbt"
)

// --------------------------------------------------------- scripted notifier

// c20Step is the scripted outcome of one delivery attempt.
type c20Step struct {
	Kind      string `json:"kind"`                 // "ok" | "rec" (recoverable error) | "unrec" (unrecoverable error) | "hang" (blocks until the context is done)
	DurMs     int    `json:"dur_ms,omitempty"`     // virtual milliseconds the attempt takes before it returns
	IgnoreCtx bool   `json:"ignore_ctx,omitempty"` // the attempt does not watch the context while taking DurMs
	CutRec    bool   `json:"cut_rec,omitempty"`    // recoverable flag returned when the attempt is cut short by the context
	// OwnTimeout ("deadline" | "canceled"): the error of a failed attempt wraps context.DeadlineExceeded / Canceled
	// although the flush context is alive: the integration's own client timeout fired (an http.Client.Timeout, a dial deadline)
	OwnTimeout string `json:"own_timeout,omitempty"`
}

// c20Script: Steps[i] for attempt i, Tail for every attempt beyond.
type c20Script struct {
	Steps []c20Step `json:"steps"`
	Tail  c20Step   `json:"tail"`
}

func (s c20Script) step(i int) c20Step {
	if i < len(s.Steps) {
		return s.Steps[i]
	}
	return s.Tail
}

// c20Attempt is what the scripted notifier observed and answered (harness-owned
// ground truth; offsets are relative to the start of the flush).
type c20Attempt struct {
	Start, End time.Duration
	Ret        string // "ok" | "rec" | "unrec"
	Cut        bool   // cut short by the context
	Alerts     []string
}

type c20Notifier struct {
	mu     sync.Mutex
	script c20Script
	t0     time.Time
	recs   []c20Attempt
	active int
}

func c20AllIdle(ns []*c20Notifier) bool {
	for _, n := range ns {
		n.mu.Lock()
		a := n.active
		n.mu.Unlock()
		if a > 0 {
			return false
		}
	}
	return true
}

func (n *c20Notifier) arm(script c20Script, t0 time.Time) {
	n.mu.Lock()
	defer n.mu.Unlock()
	n.script, n.t0, n.recs = script, t0, nil
}

func (n *c20Notifier) attempts() []c20Attempt {
	n.mu.Lock()
	defer n.mu.Unlock()
	return append([]c20Attempt(nil), n.recs...)
}

var errC20Scripted = errors.New("scripted failure")

// Notify implements notify.Notifier.
func (n *c20Notifier) Notify(ctx context.Context, alerts ...*types.Alert) (bool, error) {
	n.mu.Lock()
	idx := len(n.recs)
	st := n.script.step(idx)
	rec := c20Attempt{Start: time.Since(n.t0)}
	for _, a := range alerts {
		rec.Alerts = append(rec.Alerts, string(a.Labels[model.AlertNameLabel]))
	}
	n.recs = append(n.recs, rec)
	n.active++
	n.mu.Unlock()
	// like the Slack integration (thread id, channel id) every attempt notes something in the receiver data of the
	// flush; only a successful delivery may make it reach the notification log
	if store, ok := notify.NflogStore(ctx); ok {
		store.SetStr("attempt", fmt.Sprintf("%d@%v", idx, rec.Start))
	}

	cut := false
	switch {
	case st.Kind == "hang":
		<-ctx.Done()
		cut = true
	case st.DurMs > 0 && st.IgnoreCtx:
		time.Sleep(time.Duration(st.DurMs) * time.Millisecond)
	case st.DurMs > 0:
		tm := time.NewTimer(time.Duration(st.DurMs) * time.Millisecond)
		select {
		case <-tm.C:
		case <-ctx.Done():
			tm.Stop()
			cut = true
		}
	}
	var (
		retry bool
		err   error
		ret   string
	)
	switch {
	case cut:
		retry, err = st.CutRec, fmt.Errorf("scripted attempt cut short: %w", ctx.Err())
	case st.Kind == "ok":
	case st.Kind == "rec":
		retry, err = true, errC20Scripted
	default:
		retry, err = false, errC20Scripted
	}
	if err != nil && !cut && st.OwnTimeout != "" {
		inner := context.DeadlineExceeded
		if st.OwnTimeout == "canceled" {
			inner = context.Canceled
		}
		err = fmt.Errorf("scripted failure: %w", &url.Error{Op: "Post", URL: "http://receiver.invalid/hook", Err: inner})
	}
	switch {
	case err == nil:
		ret = "ok"
	case retry:
		ret = "rec"
	default:
		ret = "unrec"
	}
	n.mu.Lock()
	n.recs[idx].End = time.Since(n.t0)
	n.recs[idx].Ret = ret
	n.recs[idx].Cut = cut
	n.active--
	n.mu.Unlock()
	return retry, err
}

type c20RS bool

func (r c20RS) SendResolved() bool { return bool(r) }

// ------------------------------------------------------------- the oracle

// Backoff parameters of notify/retry_stage.go: backoff.NewExponentialBackOff()
// of cenkalti/backoff/v5 with its defaults (initial 500 ms, multiplier 1.5, cap
// 60 s, randomisation ±50 %), driven by backoff.NewTicker, whose first tick is
// immediate and whose next timer starts when a tick is consumed (= at attempt
// start). Every step is therefore within [250 ms, 90 s] and the gap between two
// attempt starts is max(step, duration of the earlier attempt).
const (
	c20MinStep = 250 * time.Millisecond
	c20MaxStep = 90 * time.Second
	c20Slack   = time.Millisecond
)

type c20Outcome string

const (
	c20Success     c20Outcome = "success"      // an attempt reported success before the deadline
	c20LateSuccess c20Outcome = "late-success" // an attempt that ignores the context reported success after the deadline: verdict left free
	c20FailUnrec   c20Outcome = "fail-unrec"
	c20FailDL      c20Outcome = "fail-deadline"
)

// c20JudgeAttempts judges the attempts one integration saw during one flush.
//
//	earliest   offset at which the retry loop can start at the earliest (cluster wait)
//	deadline   offset of the flush deadline
//	want       names of the alerts every attempt must carry, in order
func c20JudgeAttempts(who string, recs []c20Attempt, earliest, deadline time.Duration, want []string) (vs []pbt.Violation, out c20Outcome, successEnd time.Duration) {
	add := func(kind, f string, a ...any) {
		vs = append(vs, pbt.V(kind, who+": "+f, a...).With("integration", who))
	}
	terminal := -1
	for i, r := range recs {
		if !equalStrings(r.Alerts, want) {
			add("retry-wrong-alerts", "attempt %d carried alerts %v, want %v", i+1, r.Alerts, want)
		}
		if r.Start > deadline {
			add("retry-start-after-deadline", "attempt %d started at %v, after the deadline %v", i+1, r.Start, deadline)
		}
		if i == 0 {
			if r.Start < earliest {
				add("retry-before-wait", "attempt 1 started at %v before the wait %v elapsed", r.Start, earliest)
			}
			if r.Start > earliest+c20MaxStep {
				add("retry-first-late", "attempt 1 started at %v, more than one backoff step after %v", r.Start, earliest)
			}
		} else {
			p := recs[i-1]
			if r.Start-p.Start < c20MinStep {
				add("retry-no-backoff", "attempt %d started %v after attempt %d (< %v)", i+1, r.Start-p.Start, i, c20MinStep)
			}
			if r.Start > max(p.Start+c20MaxStep, p.End)+c20Slack {
				add("retry-gap-too-long", "attempt %d started at %v; previous started %v ended %v (max step %v)", i+1, r.Start, p.Start, p.End, c20MaxStep)
			}
		}
		if terminal < 0 && (r.Ret == "ok" || r.Ret == "unrec") {
			terminal = i
		}
	}
	switch {
	case terminal >= 0:
		if len(recs) > terminal+1 {
			if recs[terminal].Ret == "ok" {
				add("retry-after-success", "attempt %d succeeded but %d attempts were made", terminal+1, len(recs))
			} else {
				add("retry-after-unrecoverable", "attempt %d failed unrecoverably but %d attempts were made", terminal+1, len(recs))
			}
		}
		if recs[terminal].Ret == "unrec" {
			return vs, c20FailUnrec, 0
		}
		if recs[terminal].End >= deadline {
			return vs, c20LateSuccess, recs[terminal].End
		}
		return vs, c20Success, recs[terminal].End
	case len(recs) == 0:
		if deadline > earliest+c20Slack {
			add("retry-never-attempted", "no attempt although the loop could start at %v and the deadline is %v", earliest, deadline)
		}
	default:
		last := recs[len(recs)-1]
		if max(last.Start+c20MaxStep, last.End)+c20Slack < deadline {
			add("retry-gave-up-early", "last of %d attempts started %v ended %v (recoverable); deadline %v is more than one backoff step (%v) away",
				len(recs), last.Start, last.End, deadline, c20MaxStep)
		}
	}
	return vs, c20FailDL, 0
}

func equalStrings(a, b []string) bool {
	if len(a) != len(b) {
		return false
	}
	for i := range a {
		if a[i] != b[i] {
			return false
		}
	}
	return true
}

// ------------------------------------------------------------ generators

// c20Scale picks the generated size bound by tier (sizes scale, oracles do not).
func c20Scale(quick, thorough int) int {
	if pbt.Thorough() {
		return thorough
	}
	return quick
}

type c20BAlert struct {
	Name     string `json:"name"`
	Resolved bool   `json:"resolved"`
}

// genC20Script draws an outcome script. bias: 0 mostly failing, 1 mostly succeeding early.
func genC20Step(t *rapid.T, kinds []string) c20Step {
	st := c20Step{Kind: rapid.SampledFrom(kinds).Draw(t, "kind")}
	switch rapid.IntRange(0, 5).Draw(t, "durClass") {
	case 0, 1, 2:
	case 3:
		st.DurMs = rapid.IntRange(1, 2000).Draw(t, "dur")
	case 4:
		st.DurMs = rapid.IntRange(2000, 30000).Draw(t, "dur")
	default:
		st.DurMs = rapid.IntRange(30000, 200000).Draw(t, "dur")
	}
	if st.DurMs > 0 {
		st.IgnoreCtx = rapid.IntRange(0, 3).Draw(t, "ignoreCtx") == 0
	}
	st.CutRec = rapid.IntRange(0, 3).Draw(t, "cutRec") != 0
	if (st.Kind == "rec" || st.Kind == "unrec") && rapid.IntRange(0, 3).Draw(t, "ownTimeout") == 0 {
		st.OwnTimeout = rapid.SampledFrom([]string{"deadline", "deadline", "canceled"}).Draw(t, "ownTimeoutKind")
	}
	return st
}

var (
	c20KindsFail = []string{"rec", "rec", "rec", "rec", "rec", "hang", "unrec", "ok"}
	c20KindsAny  = []string{"ok", "ok", "rec", "rec", "unrec", "hang"}
)

func genC20Script(t *rapid.T) c20Script {
	var sc c20Script
	kinds := c20KindsAny
	if rapid.Bool().Draw(t, "failing") {
		kinds = c20KindsFail
	}
	n := rapid.IntRange(0, c20Scale(8, 16)).Draw(t, "nSteps")
	for i := 0; i < n; i++ {
		sc.Steps = append(sc.Steps, genC20Step(t, kinds))
	}
	sc.Tail = genC20Step(t, []string{"rec", "rec", "rec", "ok", "unrec", "hang"})
	return sc
}

// genC20DeadlineUs draws a deadline offset in microseconds; it always ends in
// 500 µs while every scripted duration and wait is a whole millisecond, so an
// attempt scheduled by the scenario never ends or starts exactly at the deadline.
func genC20DeadlineUs(t *rapid.T) int64 {
	var ms int
	switch rapid.IntRange(0, 9).Draw(t, "dlClass") {
	case 0:
		return -1000 // already expired when the flush starts
	case 1:
		ms = rapid.IntRange(0, 2000).Draw(t, "dl")
	case 2, 3:
		ms = rapid.IntRange(2000, 60000).Draw(t, "dl")
	case 4, 5, 6:
		ms = rapid.IntRange(60000, 300000).Draw(t, "dl")
	default:
		ms = rapid.IntRange(300000, 900000).Draw(t, "dl")
	}
	return int64(ms)*1000 + 500
}

func genC20Batch(t *rapid.T, prefix string, minN, maxN int) []c20BAlert {
	n := rapid.IntRange(minN, maxN).Draw(t, "nAlerts")
	pRes := rapid.SampledFrom([]int{0, 3, 5, 10}).Draw(t, "pRes")
	var out []c20BAlert
	for i := 0; i < n; i++ {
		out = append(out, c20BAlert{Name: fmt.Sprintf("%s%d", prefix, i), Resolved: rapid.IntRange(0, 9).Draw(t, "res") < pRes})
	}
	return out
}

func c20BuildBatch(b []c20BAlert, now time.Time) []*types.Alert {
	var out []*types.Alert
	for _, a := range b {
		al := &types.Alert{
			Alert: model.Alert{
				Labels:   model.LabelSet{model.AlertNameLabel: model.LabelValue(a.Name), "grp": "g"},
				StartsAt: now.Add(-2 * time.Hour),
			},
			UpdatedAt: now.Add(-time.Minute),
		}
		if a.Resolved {
			al.EndsAt = now.Add(-time.Minute)
		} else {
			// far beyond every generated horizon: the status cannot flip while a flush is retried
			al.EndsAt = now.Add(1000 * time.Hour)
		}
		out = append(out, al)
	}
	return out
}

// c20Expected: the alerts an integration must be handed.
func c20Expected(b []c20BAlert, sendResolved bool) (want []string, firing int) {
	for _, a := range b {
		if !a.Resolved {
			firing++
		}
		if sendResolved || !a.Resolved {
			want = append(want, a.Name)
		}
	}
	return want, firing
}

// ------------------------------------------------------------ TestC20Retry

type c20RetryScenario struct {
	Script       c20Script   `json:"script"`
	DeadlineUs   int64       `json:"deadline_us"`
	SendResolved bool        `json:"send_resolved"`
	Alerts       []c20BAlert `json:"alerts"`
}

func genC20Retry(t *rapid.T) c20RetryScenario {
	return c20RetryScenario{
		Script:       genC20Script(t),
		DeadlineUs:   genC20DeadlineUs(t),
		SendResolved: rapid.Bool().Draw(t, "sendResolved"),
		Alerts:       genC20Batch(t, "a", 1, c20Scale(5, 12)),
	}
}

func execC20Retry(sc c20RetryScenario) (res pbt.Result) {
	var (
		recs     []c20Attempt
		err      error
		outLen   int
		retAt    time.Duration
		deadline = time.Duration(sc.DeadlineUs) * time.Microsecond
		n        = &c20Notifier{}
	)
	bubble(func() {
		t0 := time.Now()
		alerts := c20BuildBatch(sc.Alerts, t0)
		n.arm(sc.Script, t0)
		ctx, cancel := context.WithDeadline(context.Background(), t0.Add(deadline))
		defer cancel()
		var firing, resolved []uint64
		for i, a := range sc.Alerts {
			// the RetryStage only looks at the number of firing alerts the DedupStage put into the context
			if a.Resolved {
				resolved = append(resolved, uint64(i+1))
			} else {
				firing = append(firing, uint64(i+1))
			}
		}
		ctx = notify.WithFiringAlerts(ctx, firing)
		ctx = notify.WithResolvedAlerts(ctx, resolved)
		ctx = notify.WithGroupKey(ctx, "{}:{grp=\"g\"}")
		ctx = notify.WithReceiverName(ctx, "recv")
		integ := notify.NewIntegration(n, c20RS(sc.SendResolved), "scripted", 0, "recv")
		st := notify.NewRetryStage(integ, "recv", notify.NewMetrics(prometheus.NewRegistry(), featurecontrol.NoopFlags{}), eventrecorder.NopRecorder())
		var out []*types.Alert
		_, out, err = st.Exec(ctx, nopLog, alerts...)
		retAt = time.Since(t0)
		outLen = len(out)
		cancel()
		for synctest.Wait(); !c20AllIdle([]*c20Notifier{n}); synctest.Wait() {
			time.Sleep(time.Second)
		}
		recs = n.attempts()
	})

	want, firing := c20Expected(sc.Alerts, sc.SendResolved)
	if !sc.SendResolved && firing == 0 {
		// "minus resolved ones when send_resolved is off": nothing is left to deliver.
		if len(recs) != 0 {
			res.Add(pbt.V("retry-called-with-nothing-to-send", "send_resolved off and no firing alert, but the notifier was called %d times (first with %v)", len(recs), recs[0].Alerts))
		}
		// No delivery failed, so the flush must not report failure; the batch is passed on
		// so that the log stage can record the (empty) firing set for the next DedupStage run.
		if err != nil {
			res.Add(pbt.V("retry-error-with-nothing-to-send", "send_resolved off and no firing alert: error %v", err))
		} else if outLen != len(sc.Alerts) {
			res.Add(pbt.V("retry-batch-dropped", "send_resolved off and no firing alert: %d alerts passed on, want %d", outLen, len(sc.Alerts)))
		}
		res.Class("nothing-to-send")
		res.NonTrivial = true
		return res
	}
	vs, outcome, _ := c20JudgeAttempts("scripted[0]", recs, 0, deadline, want)
	res.Add(vs...)
	switch outcome {
	case c20Success:
		if err != nil {
			res.Add(pbt.V("retry-error-after-success", "attempt %d reported success at %v (deadline %v) but the stage returned %v", len(recs), recs[len(recs)-1].End, deadline, err))
		} else if outLen != len(sc.Alerts) {
			// the following log stage only runs when the batch is passed on (MultiStage stops on an empty batch)
			res.Add(pbt.V("retry-batch-dropped", "success but %d alerts passed on, want %d", outLen, len(sc.Alerts)))
		}
	case c20FailUnrec, c20FailDL:
		if err == nil {
			res.Add(pbt.V("retry-failure-not-reported", "outcome %s after %d attempts (last %+v) but the stage returned nil", outcome, len(recs), c20Last(recs)).With("outcome", string(outcome)))
		}
	}
	// the stage is back by the deadline (or when an attempt that ignores the context returns)
	lastEnd := time.Duration(0)
	if len(recs) > 0 {
		lastEnd = recs[len(recs)-1].End
	}
	if retAt > max(deadline, lastEnd, 0)+c20Slack {
		res.Add(pbt.V("retry-returns-late", "stage returned at %v; deadline %v, last attempt ended %v", retAt, deadline, lastEnd))
	}

	failures := 0
	for _, r := range recs {
		if r.Ret != "ok" {
			failures++
		}
		if r.Cut {
			res.Class("attempt-cut-by-deadline")
		}
	}
	res.NonTrivial = failures > 0
	res.Class("outcome:" + string(outcome))
	switch {
	case len(recs) == 0:
		res.Class("attempts:0")
	case len(recs) == 1:
		res.Class("attempts:1")
	case len(recs) <= 5:
		res.Class("attempts:2-5")
	default:
		res.Class("attempts:>5")
	}
	if outcome == c20Success && len(recs) > 1 {
		res.Class("success-after-retries")
	}
	if !sc.SendResolved && len(want) < len(sc.Alerts) {
		res.Class("resolved-filtered-out")
	}
	res.Sample = map[string]any{"deadline": deadline.String(), "send_resolved": sc.SendResolved, "attempts": len(recs), "outcome": outcome, "script_steps": len(sc.Script.Steps), "tail": sc.Script.Tail.Kind}
	return res
}

func c20Last(recs []c20Attempt) any {
	if len(recs) == 0 {
		return nil
	}
	return recs[len(recs)-1]
}

func TestC20Retry(t *testing.T) {
	pbt.Run(t, pbt.Spec[c20RetryScenario]{
		Property: "C20", Name: "C20Retry",
		Rule: "notify.RetryStage in a synctest bubble with a scripted notifier: per-attempt outcomes (ok / recoverable / unrecoverable / hang until the context is done; optional virtual duration 1 ms-200 s, honouring or ignoring the context) for 0-8 (thorough: 0-16) attempts plus a tail outcome for all further attempts; flush deadline already expired, 0-2 s, 2-60 s, 1-5 min or 5-15 min (always x.5 ms so that scripted instants never coincide with it); send_resolved on/off over batches of 1-5 (thorough: 1-12) firing/resolved alerts. Oracle: see c20JudgeAttempts (attempt payload, no start after the deadline, gaps within [250 ms, max(90 s, attempt duration)], nothing after success/unrecoverable, no give-up more than one backoff step before the deadline, error iff no success; a success reported after the deadline by a context-ignoring attempt is left free). Non-trivial: at least one attempt failed (fault reached), or the nothing-to-send path was taken.",
		Gen:  genC20Retry, Exec: execC20Retry,
	})
}

// C01Retry: "A failed delivery never discharges the obligation: it is retried inside the flush": the C20Retry scripts
// judged for that clause alone. A recoverable failure, whatever its error wraps (also an integration's own client
// timeout, i.e. context.DeadlineExceeded while the flush context is alive), is followed by another attempt as long as
// the flush deadline is more than one backoff step away; and a flush that ends without a success reports an error, so
// that nothing is recorded as sent.
func TestC01Retry(t *testing.T) {
	pbt.Run(t, pbt.Spec[c20RetryScenario]{
		Property: "C01", Name: "C01Retry",
		Rule: "the scenarios of C20Retry (notify.RetryStage in a bubble with a scripted notifier: per-attempt ok / recoverable / unrecoverable / hang, durations, errors that wrap context.DeadlineExceeded or context.Canceled although the flush context is alive; flush deadlines from already expired to 15 min). Judged here: the stage does not give up after a recoverable failure while the deadline is more than one backoff step away, and a flush without a successful attempt returns an error (kinds retry-gave-up-early, retry-failure-not-reported, harness). Non-trivial: as C20Retry.",
		Gen:  genC20Retry,
		Exec: func(sc c20RetryScenario) pbt.Result {
			res := execC20Retry(sc)
			kept := res.Violations[:0]
			for _, v := range res.Violations {
				switch v.Kind {
				case "retry-gave-up-early", "retry-failure-not-reported", "harness":
					kept = append(kept, v)
				}
			}
			res.Violations = kept
			return res
		},
	})
}
