package checks

// C19Reconnect: "a joining or re-joining instance obtains the complete current state through the full-state exchange"
// when the only path is a survivor's reconnect loop: the instance that restarts (empty, on its old address) knows only
// a configured peer that is down, so its own join fails; the survivor that saw it fail keeps dialling its address every
// --cluster.reconnect-interval until --cluster.reconnect-timeout has passed (0 = for ever) and the join it performs
// then hands the restarted instance the state. Real memberlist on loopback, periodic push/pull off.

import (
	"bytes"
	"context"
	"fmt"
	"testing"
	"time"

	"google.golang.org/protobuf/types/known/timestamppb"
	"pgregory.net/rapid"

	"github.com/prometheus/alertmanager/silence"
	pb "github.com/prometheus/alertmanager/silence/silencepb"

	"verif/harness/pbt"
)

type c19rcScenario struct {
	Before        int  `json:"before"`        // silences authored on the survivor while all three are up
	Alone         int  `json:"alone"`         // … while it is alone
	NeverGiveUp   bool `json:"never_give_up"` // --cluster.reconnect-timeout=0 (else the default, 6 h)
	ReconnectMs   int  `json:"reconnect_ms"`  // --cluster.reconnect-interval
	FromSnapshot  bool `json:"from_snapshot"` // the restarted instance starts from the snapshot it had (else empty)
	SeedStaysDown bool `json:"seed_stays_down"`
	// WaitCleanup (thorough tier only, one case in four): the restart happens 5 min 5 s after the survivor declared the
	// instance dead, i.e. after one run of the survivor's five-minute clean-up of its list of failed peers, which
	// must only forget peers that have been gone for longer than the reconnect timeout
	WaitCleanup bool `json:"wait_cleanup,omitempty"`
}

func genC19Reconnect(t *rapid.T) c19rcScenario {
	wait := pbt.Thorough() && rapid.IntRange(0, 3).Draw(t, "waitCleanup") == 0
	sc := c19rcScenario{Before: rapid.IntRange(0, 2).Draw(t, "before"), Alone: rapid.IntRange(1, 3).Draw(t, "alone"), NeverGiveUp: rapid.Bool().Draw(t, "neverGiveUp"),
		ReconnectMs: rapid.SampledFrom([]int{200, 500, 1000}).Draw(t, "reconnect"), FromSnapshot: rapid.Bool().Draw(t, "fromSnapshot"), SeedStaysDown: true}
	sc.WaitCleanup = wait
	return sc
}

// c19rcRun: "ok", "env: …" or "miss: …"
func c19rcRun(sc c19rcScenario, deadline time.Duration) string {
	gossip := 50 * time.Millisecond
	var nodes []*c19Node
	defer func() {
		for _, n := range nodes {
			if n != nil && n.peer != nil {
				if n.settleCancel != nil {
					n.settleCancel()
				}
				c19Shutdown(n.peer)
			}
		}
	}()
	add := func(name string, known []string, o c19NodeOpts) (*c19Node, error) {
		n, err := c19NewNode(name, "", known, gossip, nil, nil, o)
		if n != nil {
			nodes = append(nodes, n)
		}
		return n, err
	}
	probe := 400 * time.Millisecond
	seed, err := add("rc-seed", nil, c19NodeOpts{probeInterval: probe, noReconnect: true})
	if err != nil {
		return "env: " + err.Error()
	}
	var rt *time.Duration
	if sc.NeverGiveUp {
		z := time.Duration(0)
		rt = &z
	}
	a, err := add("rc-a", []string{seed.addr}, c19NodeOpts{probeInterval: probe, reconnectInterval: time.Duration(sc.ReconnectMs) * time.Millisecond, reconnectTimeout: rt})
	if err != nil {
		return "env: " + err.Error()
	}
	b, err := add("rc-b", []string{seed.addr}, c19NodeOpts{probeInterval: probe, noReconnect: true})
	if err != nil {
		return "env: " + err.Error()
	}
	waitFor := func(d time.Duration, f func() bool) bool {
		end := time.Now().Add(d)
		for !f() {
			if time.Now().After(end) {
				return false
			}
			time.Sleep(25 * time.Millisecond)
		}
		return true
	}
	if !waitFor(15*time.Second, func() bool {
		return len(c19MemberNames(seed)) == 3 && len(c19MemberNames(a)) == 3 && len(c19MemberNames(b)) == 3
	}) {
		return "env: the three instances do not list each other within 15 s"
	}
	ctx := context.Background()
	now := time.Now()
	var ids []string
	author := func(tag string) {
		s := &pb.Silence{MatcherSets: []*pb.MatcherSet{{Matchers: []*pb.Matcher{{Type: pb.Matcher_EQUAL, Name: "sid", Pattern: fmt.Sprint(tag, len(ids))}}}},
			StartsAt: timestamppb.New(now), EndsAt: timestamppb.New(now.Add(time.Hour)), CreatedBy: "c19", Comment: "c"}
		if err := a.sil.Set(ctx, s); err == nil {
			ids = append(ids, s.Id)
		}
	}
	holds := func(n *c19Node) int {
		k := 0
		for _, id := range ids {
			if got, _, err := n.sil.Query(ctx, silence.QIDs(id)); err == nil && len(got) == 1 {
				k++
			}
		}
		return k
	}
	for i := 0; i < sc.Before; i++ {
		author("before")
	}
	if !waitFor(10*time.Second, func() bool { return holds(b) == len(ids) }) {
		return "env: gossip among three healthy instances did not deliver within 10 s"
	}
	var snap []byte
	if sc.FromSnapshot {
		var buf bytes.Buffer
		if _, err := b.sil.Snapshot(&buf); err == nil {
			snap = buf.Bytes()
		}
	}
	bAddr := b.addr
	c19Crash(seed.peer)
	c19Crash(b.peer)
	// the survivor notices both deaths (only then are they on its list of peers to dial again)
	if !waitFor(30*time.Second, func() bool { return len(c19MemberNames(a)) == 1 }) {
		return "env: the survivor does not declare the crashed instances dead within 30 s"
	}
	for i := 0; i < sc.Alone; i++ {
		author("alone")
	}
	if sc.WaitCleanup {
		time.Sleep(5*time.Minute + 5*time.Second)
	}
	// the restart: same address, new name, its only configured peer is down
	var b2 *c19Node
	if !waitFor(10*time.Second, func() bool {
		n, err := c19NewNode("rc-b2", "", []string{seed.addr}, gossip, snap, nil, c19NodeOpts{bind: bAddr, probeInterval: probe, noReconnect: true, tolerateJoinError: true})
		if err != nil || n == nil {
			if n != nil && n.peer != nil {
				c19Shutdown(n.peer)
			}
			return false
		}
		b2 = n
		nodes = append(nodes, n)
		return true
	}) {
		return "env: the old address cannot be bound again within 10 s"
	}
	if waitFor(deadline, func() bool { return holds(b2) == len(ids) }) {
		return "ok"
	}
	return fmt.Sprintf("miss: %v after its restart on %s the instance holds %d of the survivor's %d silences; the survivor lists %d member(s); --cluster.reconnect-interval=%dms --cluster.reconnect-timeout=%s",
		deadline, bAddr, holds(b2), len(ids), len(c19MemberNames(a)), sc.ReconnectMs, map[bool]string{true: "0 (never give up)", false: "6h"}[sc.NeverGiveUp])
}

func execC19Reconnect(sc c19rcScenario) (res pbt.Result) {
	deadline := 20 * time.Second
	for attempt := 0; attempt < 2; attempt++ {
		out := c19rcRun(sc, deadline)
		switch {
		case out == "ok":
			res.NonTrivial = true
			if sc.NeverGiveUp {
				res.Class("reconnect-timeout-0")
			}
			return res
		case len(out) > 4 && out[:4] == "env:":
			res.Class("environment-error")
			res.Sample = out
			return res
		}
		if attempt == 1 {
			res.Add(pbt.V("restarted-instance-never-reconnected", "the survivor's reconnect loop is the only way to the restarted instance (its own configured peer is down, periodic push/pull is off); twice in a row: %s", out))
		}
		deadline *= 2
	}
	return res
}

func TestC19Reconnect(t *testing.T) {
	pbt.Run(t, pbt.Spec[c19rcScenario]{
		Property: "C19", Name: "C19Reconnect",
		Rule: "real cluster.Peer instances on loopback (periodic push/pull off): a seed, a survivor A (reconnect interval 200-1000 ms, reconnect timeout 0 = never give up, or the default 6 h) and B, both configured with the seed only; A authors 0-2 silences; the seed and B are hard-crashed; after A has declared both dead it authors 1-3 more; B restarts on its old address under a new name, empty or from its snapshot, its own join (to the dead seed) fails (thorough tier: in one case in four the restart comes 5 min 5 s later, after one run of the survivor's clean-up of failed peers, which must not forget a peer whose reconnect timeout has not passed). Within 20 s (retried once with 40 s) the restarted instance holds all of A's silences: A's reconnect loop dials the failed peer's address and the join hands over the full state. Environment problems (membership not converging, address not free) make the case inconclusive. Non-trivial: the restarted instance obtained the state.",
		Gen:  genC19Reconnect, Exec: execC19Reconnect,
	})
}
