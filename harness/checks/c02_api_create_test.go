package checks

// C02ApiCreate: "a silence being created … takes effect": the silence a client posts is the silence that mutes. The
// request body is what clients other than amtool send: optional fields of a matcher (isEqual, default true; isRegex
// must be given) are left out when they have their default. The alert label sets muted afterwards are exactly those
// the posted matchers select, and GET shows the matchers as posted.

import (
	"bytes"
	"context"
	"encoding/json"
	"fmt"
	"net/http"
	"net/http/httptest"
	"testing"
	"time"

	"github.com/prometheus/client_golang/prometheus"
	"github.com/prometheus/common/model"
	"pgregory.net/rapid"

	apiv2 "github.com/prometheus/alertmanager/api/v2"
	"github.com/prometheus/alertmanager/eventrecorder"
	"github.com/prometheus/alertmanager/featurecontrol"
	"github.com/prometheus/alertmanager/marker"
	"github.com/prometheus/alertmanager/matcher/compat"
	"github.com/prometheus/alertmanager/silence"

	"verif/harness/gen"
	"verif/harness/pbt"
	"verif/harness/ref"
)

type c02acScenario struct {
	Matchers  []ref.Matcher       `json:"matchers"`
	OmitEqual []bool              `json:"omit_equal"` // per matcher: leave isEqual out when it is true
	LabelSets []map[string]string `json:"label_sets"`
}

func genC02ApiCreate(t *rapid.T) c02acScenario {
	var sc c02acScenario
	n := rapid.IntRange(1, 4).Draw(t, "matchers")
	for i := 0; i < n; i++ {
		sc.Matchers = append(sc.Matchers, gen.UniMatcher().Draw(t, "m"))
		sc.OmitEqual = append(sc.OmitEqual, rapid.IntRange(0, 2).Draw(t, "omit") != 0)
	}
	k := rapid.IntRange(2, 6).Draw(t, "labelSets")
	for i := 0; i < k; i++ {
		ls := map[string]string{}
		for _, name := range gen.UniNames {
			if v := rapid.SampledFrom(append([]string{""}, gen.UniValues...)).Draw(t, "lv"); v != "" {
				ls[name] = v
			}
		}
		if len(ls) == 0 {
			ls["a"] = gen.UniValues[0]
		}
		sc.LabelSets = append(sc.LabelSets, ls)
	}
	return sc
}

func execC02ApiCreate(sc c02acScenario) (res pbt.Result) {
	omitted, negativeBefore := false, false
	bubble(func() {
		compat.InitFromFlags(nopLog, featurecontrol.NoopFlags{})
		reg := prometheus.NewRegistry()
		sils, err := silence.New(silence.Options{Retention: time.Hour, Logger: nopLog, Metrics: reg, EventRecorder: eventrecorder.NopRecorder()})
		if err != nil {
			res.Fail("harness", "silence.New: %v", err)
			return
		}
		api, err := apiv2.NewAPI(nil, nil, func(string, string) ([]string, bool) { return nil, false }, sils, nil, nopLog, reg)
		if err != nil {
			res.Fail("harness", "NewAPI: %v", err)
			return
		}
		var ms []map[string]any
		sawNegative := false
		for i, m := range sc.Matchers {
			v := m.Value
			if m.Op == "=~" || m.Op == "!~" {
				v = m.Pattern()
			}
			jm := map[string]any{"name": m.Name, "value": v, "isRegex": m.Op == "=~" || m.Op == "!~"}
			if eq := m.Op == "=" || m.Op == "=~"; !eq || !sc.OmitEqual[i] {
				jm["isEqual"] = eq
			} else {
				omitted = true
				if sawNegative {
					negativeBefore = true
				}
			}
			if m.Op == "!=" || m.Op == "!~" {
				sawNegative = true
			}
			ms = append(ms, jm)
		}
		now := time.Now()
		raw, _ := json.Marshal(map[string]any{"matchers": ms, "startsAt": now.UTC().Format(time.RFC3339Nano), "endsAt": now.Add(time.Hour).UTC().Format(time.RFC3339Nano), "createdBy": "c02", "comment": "c"})
		req := httptest.NewRequest(http.MethodPost, "/api/v2/silences", bytes.NewReader(raw))
		req.Header.Set("Content-Type", "application/json")
		rec := httptest.NewRecorder()
		api.Handler.ServeHTTP(rec, req)
		allEmpty := true
		for _, m := range sc.Matchers {
			if !ref.MatchAll([]ref.Matcher{m}, map[string]string{}) {
				allEmpty = false
			}
		}
		if rec.Code != 200 {
			if !allEmpty {
				res.Add(pbt.V("create-refused", "POST /silences with %s answered %d %s", raw, rec.Code, rec.Body.String()))
			} else {
				res.Class("refused:matches-everything")
			}
			return
		}
		if allEmpty {
			res.Class("other-property:accepted-silence-matching-everything")
			return
		}
		time.Sleep(time.Second)
		silencer := silence.NewSilencer(sils, nopLog, eventrecorder.NopRecorder())
		for _, ls := range sc.LabelSets {
			want := ref.MatchAll(sc.Matchers, ls)
			ctx := marker.WithContext(context.Background(), marker.NewAlertMarker())
			got := silencer.Mutes(ctx, toLabelSet(ls))
			if got != want {
				res.Add(pbt.V("posted-silence-mutes-differently", "a silence posted with matchers %s: Mutes(%v)=%v, the posted matchers (isEqual defaults to true) say %v", mustJSON(ms), ls, got, want))
			}
		}
		_ = model.LabelSet{}
	})
	res.NonTrivial = omitted
	if negativeBefore {
		res.Class("default-after-negative-matcher")
	}
	return res
}

func mustJSON(v any) string {
	b, err := json.Marshal(v)
	if err != nil {
		return fmt.Sprint(v)
	}
	return string(b)
}

func TestC02ApiCreate(t *testing.T) {
	pbt.Run(t, pbt.Spec[c02acScenario]{
		Property: "C02", Name: "C02ApiCreate",
		Rule: "the real silence store behind the real POST /api/v2/silences handler in a bubble: a silence with 1-4 matchers over the small label universe is posted with the optional isEqual left out on two in three of the matchers that have the default (true); a second later a Silencer over the store mutes exactly the 2-6 generated label sets that the posted matchers select. A silence whose matchers all match the empty label set must be refused (judged by C12). Non-trivial: a default was left out.",
		Gen:  genC02ApiCreate, Exec: execC02ApiCreate,
	})
}
