package checks

// C15, part 1: time intervals match the calendar exactly.
//
// Generated time_interval_spec values are rendered AS YAML TEXT, parsed by the
// real unmarshallers of /repo/timeinterval (directly, strictly, and embedded in
// a full configuration through config.Load), and (*TimeInterval).ContainsTime /
// Intervener.Mutes are compared with the independent reference calendar
// ref.C15Contains at uniform and boundary-biased instants.

import (
	"fmt"
	"strings"
	"testing"
	"time"

	"gopkg.in/yaml.v2"
	"pgregory.net/rapid"

	"github.com/prometheus/alertmanager/config"
	"github.com/prometheus/alertmanager/timeinterval"

	"verif/harness/gen"
	"verif/harness/pbt"
	"verif/harness/ref"
)

type c15CalScenario struct {
	Spec     ref.C15Spec    `json:"spec"`
	Style    []int          `json:"style"`
	Inject   *gen.C15Inject `json:"inject,omitempty"`
	Instants []int64        `json:"instants"` // unix seconds on the minute grid
	Sec      int            `json:"sec"`      // 1..59, seconds added in the same-minute relation
	NowZone  string         `json:"now_zone"` // zone the instant is expressed in when handed to the code
}

func c15NInstants() int {
	if pbt.Thorough() {
		return 40
	}
	return 24
}

func genC15Cal(t *rapid.T) c15CalScenario {
	var sc c15CalScenario
	sc.Spec = gen.C15DrawSpec(t)
	sc.Style = gen.C15DrawStyle(t)
	if rapid.IntRange(0, 6).Draw(t, "inject") == 0 {
		inj := gen.C15DrawInject(t)
		sc.Inject = &inj
	}
	sc.Instants = gen.C15DrawInstants(t, sc.Spec, c15NInstants())
	sc.Sec = rapid.IntRange(1, 59).Draw(t, "sec")
	sc.NowZone = rapid.SampledFrom(gen.C15Zones()).Draw(t, "nowZone")
	return sc
}

var c15ListFields = []string{"times", "weekdays", "days_of_month", "months", "years"}

// genC15Empty: like genC15Cal, but one or two list fields are written as an
// explicit empty list ("weekdays: []").
func genC15Empty(t *rapid.T) c15CalScenario {
	var sc c15CalScenario
	sc.Spec = gen.C15DrawSpec(t)
	sc.Style = gen.C15DrawStyle(t)
	n := rapid.IntRange(1, 2).Draw(t, "nEmpty")
	for i := 0; i < n; i++ {
		f := rapid.SampledFrom(c15ListFields).Draw(t, "emptyField")
		dup := false
		for _, e := range sc.Spec.EmptyFields {
			dup = dup || e == f
		}
		if dup {
			continue
		}
		sc.Spec.EmptyFields = append(sc.Spec.EmptyFields, f)
		switch f {
		case "times":
			sc.Spec.Times = nil
		case "weekdays":
			sc.Spec.Weekdays = nil
		case "days_of_month":
			sc.Spec.Days = nil
		case "months":
			sc.Spec.Months = nil
		case "years":
			sc.Spec.Years = nil
		}
	}
	sc.Instants = gen.C15DrawInstants(t, sc.Spec, c15NInstants())
	sc.Sec = rapid.IntRange(1, 59).Draw(t, "sec")
	sc.NowZone = rapid.SampledFrom(gen.C15Zones()).Draw(t, "nowZone")
	return sc
}

// c15ConfigText embeds one spec into a minimal complete configuration.
func c15ConfigText(specYAML string) string {
	return "route:\n  receiver: r\nreceivers:\n- name: r\ntime_intervals:\n- name: x\n  time_intervals:\n" +
		gen.C15Indent(specYAML, "  ")
}

func c15FieldCount(s ref.C15Spec) int {
	n := 0
	for _, l := range [][]ref.C15Range{s.Times, s.Weekdays, s.Days, s.Months, s.Years} {
		if len(l) > 0 {
			n++
		}
	}
	return n
}

func c15HasNegDay(s ref.C15Spec) bool {
	for _, r := range s.Days {
		if r.B < 0 || r.E < 0 {
			return true
		}
	}
	return false
}

func c15ZoneHasDST(loc *time.Location) bool {
	for _, y := range []int{1990, 2011, 2015, 2050} {
		if len(gen.C15Transitions(loc, y)) > 0 {
			return true
		}
	}
	return false
}

func c15NearTransition(loc *time.Location, u int64) bool {
	y := time.Unix(u, 0).UTC().Year()
	for _, yy := range []int{y - 1, y, y + 1} {
		for _, tr := range gen.C15Transitions(loc, yy) {
			if d := u - tr; d >= -2*3600 && d <= 2*3600 {
				return true
			}
		}
	}
	return false
}

const c15MaxReported = 6

func execC15Cal(sc c15CalScenario) (res pbt.Result) {
	text := gen.C15Render(sc.Spec, sc.Style, sc.Inject)
	res.Sample = map[string]any{"yaml": text, "instants": len(sc.Instants)}
	defer func() {
		if r := recover(); r != nil {
			res.Add(pbt.V("panic", "panic while handling spec %q: %v", text, r).With("yaml", text))
		}
	}()
	add := func(v pbt.Violation) {
		if len(res.Violations) < c15MaxReported {
			res.Add(v.With("yaml", text))
		}
	}

	// ---- acceptance, three entry points
	var ti, tiStrict timeinterval.TimeInterval
	errPlain := yaml.Unmarshal([]byte(text), &ti)
	errStrict := yaml.UnmarshalStrict([]byte(text), &tiStrict)
	cfg, errCfg := config.Load(c15ConfigText(text))
	entry := []struct {
		name string
		err  error
	}{{"yaml.Unmarshal", errPlain}, {"yaml.UnmarshalStrict", errStrict}, {"config.Load", errCfg}}

	nowZone, err := time.LoadLocation(sc.NowZone)
	if err != nil {
		nowZone = time.UTC
	}

	if sc.Inject != nil {
		switch sc.Inject.Expect {
		case "null":
			res.Class("inject-null")
			execC15Null(sc, text, &res, ti, errPlain, errStrict, cfg, errCfg)
			return res
		case "reject":
			res.Class("inject-reject")
			for _, e := range entry {
				if e.err == nil {
					add(pbt.V("accepted-invalid", "%s accepts a spec the validity rules exclude (%s: %+v):\n%s", e.name, sc.Inject.Why, *sc.Inject, text).
						With("entry", e.name).With("why", sc.Inject.Why))
				}
			}
		default:
			res.Class("inject-free")
			// Outcome free; if accepted the predicate must be total.
			if errPlain == nil {
				res.Class("inject-free-accepted")
				for _, u := range sc.Instants {
					_ = ti.ContainsTime(time.Unix(u, 0).UTC())
				}
				if out, err := yaml.Marshal(ti); err == nil {
					var ti2 timeinterval.TimeInterval
					_ = yaml.Unmarshal(out, &ti2)
				}
			}
		}
		res.NonTrivial = false
		return res
	}

	for _, e := range entry {
		if e.err != nil {
			add(pbt.V("rejected-valid", "%s rejects a documented-valid spec: %v\n%s", e.name, e.err, text).With("entry", e.name))
		}
	}
	if errPlain != nil || errStrict != nil || errCfg != nil {
		return res
	}
	if len(cfg.TimeIntervals) != 1 || len(cfg.TimeIntervals[0].TimeIntervals) != 1 {
		add(pbt.V("config-shape", "config.Load returned %d named intervals", len(cfg.TimeIntervals)))
		return res
	}
	tiCfg := cfg.TimeIntervals[0].TimeIntervals[0]
	iv := timeinterval.NewIntervener(map[string][]timeinterval.TimeInterval{"x": {ti}})

	// ---- YAML round trip of the parsed value
	var ti2 timeinterval.TimeInterval
	rtOK := false
	out, err := yaml.Marshal(ti)
	if err != nil {
		add(pbt.V("marshal-error", "yaml.Marshal of the parsed interval fails: %v", err))
	} else if err := yaml.Unmarshal(out, &ti2); err != nil {
		add(pbt.V("roundtrip-reject", "marshalled form %q is rejected: %v", out, err).With("marshalled", string(out)))
	} else {
		rtOK = true
	}

	loc, err := ref.C15Loc(sc.Spec)
	if err != nil {
		res.Fail("generator", "%v", err)
		return res
	}
	emptyExplicit := len(sc.Spec.EmptyFields) > 0

	nIn, nOut, boundary, nearTr, clamped := 0, 0, false, false, false
	for _, u := range sc.Instants {
		t := time.Unix(u, 0).UTC()
		civ := ref.C15CivilOf(t, loc)
		want := ref.C15ContainsCivil(sc.Spec, civ, false)
		alt := ref.C15ContainsCivil(sc.Spec, civ, true)
		if want {
			nIn++
		} else {
			nOut++
		}
		for _, d := range []time.Duration{-time.Minute, time.Minute} {
			if w, _ := ref.C15Contains(sc.Spec, t.Add(d)); w != want {
				boundary = true
			}
		}
		if !nearTr && sc.Spec.Location != "" && c15NearTransition(loc, u) {
			nearTr = true
		}
		if !clamped {
			dim := ref.C15DaysIn(civ.Year, civ.Month)
			for _, r := range sc.Spec.Days {
				if r.E > dim || r.B < -dim {
					clamped = true
				}
			}
		}

		report := func(kind, path string, got bool, at time.Time) {
			v := pbt.V(kind, "%s at %s (civil %04d-%02d-%02d %s wd=%d in %s): got %v, reference %v\n%s",
				path, at.Format(time.RFC3339Nano), civ.Year, civ.Month, civ.Day, fmt.Sprintf("%02d:%02d", civ.Minute/60, civ.Minute%60), civ.Weekday, loc, got, want, text).
				With("path", path).With("instant", at.Format(time.RFC3339Nano)).With("got", got).With("want", want).
				With("explicit_empty_fields", append([]string{}, sc.Spec.EmptyFields...)).
				With("explained_by_empty_list", emptyExplicit && want != alt && got == alt)
			add(v)
		}

		got := ti.ContainsTime(t)
		if got != want {
			report("containment", "ContainsTime(UTC instant)", got, t)
		}
		if g := tiStrict.ContainsTime(t); g != want {
			report("containment", "ContainsTime(strictly parsed)", g, t)
		}
		if g := tiCfg.ContainsTime(t); g != want {
			report("containment", "ContainsTime(parsed by config.Load)", g, t)
		}
		if sc.Spec.Location != "" {
			// the interval names its zone: the zone the instant is expressed in is irrelevant
			if g := ti.ContainsTime(t.In(nowZone)); g != want {
				report("containment", "ContainsTime(instant expressed in "+sc.NowZone+")", g, t)
			}
		}
		muted, names, err := iv.Mutes([]string{"x"}, t.In(nowZone))
		if err != nil {
			add(pbt.V("intervener-error", "Intervener.Mutes: %v", err))
		} else {
			if muted != want {
				report("containment", "Intervener.Mutes(instant expressed in "+sc.NowZone+")", muted, t)
			}
			if muted != (len(names) > 0) || (muted && names[0] != "x") {
				add(pbt.V("intervener-names", "Intervener.Mutes returned muted=%v names=%v", muted, names))
			}
		}
		// same minute, other seconds
		for _, d := range []time.Duration{time.Duration(sc.Sec) * time.Second, 59*time.Second + 999999999*time.Nanosecond} {
			if g := ti.ContainsTime(t.Add(d)); g != want {
				report("seconds", fmt.Sprintf("ContainsTime(instant + %v, same minute)", d), g, t.Add(d))
			}
		}
		if rtOK {
			if g := ti2.ContainsTime(t); g != got {
				v := pbt.V("roundtrip", "after yaml.Marshal/Unmarshal (%q) the verdict at %s changes from %v to %v (reference %v)\n%s",
					out, t.Format(time.RFC3339), got, g, want, text).
					With("instant", t.Format(time.RFC3339)).With("got", got).With("reloaded", g).With("want", want).
					With("marshalled", string(out)).
					With("explicit_empty_fields", append([]string{}, sc.Spec.EmptyFields...)).
					With("explained_by_empty_list", emptyExplicit && want != alt && got == alt && g == want)
				add(v)
			}
		}
	}

	// ---- classes and non-triviality
	nf := c15FieldCount(sc.Spec)
	neg := c15HasNegDay(sc.Spec)
	nonUTC := sc.Spec.Location != "" && sc.Spec.Location != "UTC"
	if nf >= 2 {
		res.Class("fields>=2")
	}
	if neg {
		res.Class("negative-days")
	}
	if sc.Spec.Location == "" {
		res.Class("location-absent")
	}
	if nonUTC && c15ZoneHasDST(loc) {
		res.Class("dst-zone")
	}
	if nearTr {
		res.Class("dst-edge-instant")
	}
	if nIn > 0 && nOut > 0 {
		res.Class("both-verdicts")
	}
	if nIn > 0 {
		res.Class("some-contained")
	}
	if boundary {
		res.Class("boundary-instant")
	}
	if clamped {
		res.Class("day-range-clamped")
	}
	for _, r := range sc.Spec.Times {
		if r.E == 1440 {
			res.Class("time-24:00")
			break
		}
	}
	if strings.Contains(text, ": [") {
		res.Class("flow-style")
	}
	if emptyExplicit {
		res.Class("explicit-empty-list")
	}
	res.NonTrivial = (nf >= 2 || neg || nonUTC) && ((nIn > 0 && nOut > 0) || boundary)
	return res
}

// c15InvalidRanges lists parsed ranges that the stated validity rules exclude
// (time range with start >= end or outside 00:00..24:00; day of month 0).
func c15InvalidRanges(ti timeinterval.TimeInterval) []string {
	var bad []string
	for _, r := range ti.Times {
		if r.StartMinute >= r.EndMinute || r.StartMinute < 0 || r.EndMinute > 1440 {
			bad = append(bad, fmt.Sprintf("times %d..%d", r.StartMinute, r.EndMinute))
		}
	}
	for _, r := range ti.DaysOfMonth {
		if r.Begin == 0 || r.End == 0 {
			bad = append(bad, fmt.Sprintf("days_of_month %d:%d", r.Begin, r.End))
		}
	}
	return bad
}

// execC15Null judges a spec with a YAML null as a list element. The statement
// does not say whether such a spec is accepted. If it is: the parsed value
// must not hold a range the validity rules exclude, ContainsTime must be
// total, and the YAML round trip must be accepted and keep every verdict.
func execC15Null(sc c15CalScenario, text string, res *pbt.Result, ti timeinterval.TimeInterval, errPlain, errStrict error, cfg *config.Config, errCfg error) {
	type parsed struct {
		name string
		ti   timeinterval.TimeInterval
	}
	var accepted []parsed
	if errPlain == nil {
		accepted = append(accepted, parsed{"yaml.Unmarshal", ti})
	}
	if errCfg == nil && len(cfg.TimeIntervals) == 1 && len(cfg.TimeIntervals[0].TimeIntervals) == 1 {
		accepted = append(accepted, parsed{"config.Load", cfg.TimeIntervals[0].TimeIntervals[0]})
	}
	if len(accepted) == 0 {
		res.Class("null-rejected")
		return
	}
	res.Class("null-accepted", "null-in-"+sc.Inject.Field)
	res.NonTrivial = true
	for _, p := range accepted {
		if bad := c15InvalidRanges(p.ti); len(bad) > 0 {
			res.Add(pbt.V("invalid-range-accepted", "%s accepts a spec with a null %s element and yields ranges the validity rules exclude: %v\n%s", p.name, sc.Inject.Field, bad, text).
				With("entry", p.name).With("null_element_field", sc.Inject.Field).With("bad_ranges", bad).With("yaml", text))
		}
		verdicts := make([]bool, len(sc.Instants))
		for i, u := range sc.Instants {
			verdicts[i] = p.ti.ContainsTime(time.Unix(u, 0).UTC())
		}
		out, err := yaml.Marshal(p.ti)
		if err != nil {
			res.Add(pbt.V("marshal-error", "%s: yaml.Marshal of the accepted value fails: %v\n%s", p.name, err, text).With("null_element_field", sc.Inject.Field))
			continue
		}
		var ti2 timeinterval.TimeInterval
		if err := yaml.Unmarshal(out, &ti2); err != nil {
			res.Add(pbt.V("roundtrip-reject", "%s accepts the spec, but its marshalled form %q is rejected: %v\n%s", p.name, out, err, text).
				With("entry", p.name).With("null_element_field", sc.Inject.Field).With("marshalled", string(out)).With("yaml", text))
			continue
		}
		for i, u := range sc.Instants {
			if g := ti2.ContainsTime(time.Unix(u, 0).UTC()); g != verdicts[i] {
				res.Add(pbt.V("roundtrip", "%s: after the YAML round trip (%q) the verdict at %s changes from %v to %v\n%s", p.name, out, time.Unix(u, 0).UTC().Format(time.RFC3339), verdicts[i], g, text).
					With("null_element_field", sc.Inject.Field))
				break
			}
		}
	}
}

const c15CalRule = "one time_interval_spec drawn as data (0-3 ranges per field: times incl. 24:00 and 1-minute ranges; weekdays; days of month positive, negative, mixed and ranges that clamp in short months; months; years 1970-2100; location absent or one of UTC, America/New_York, Europe/Berlin, Australia/Lord_Howe, Asia/Kathmandu, Pacific/Apia, America/Sao_Paulo, Africa/Casablanca, Atlantic/Azores, Asia/Beirut, Africa/Cairo, America/Havana, America/Asuncion, Asia/Amman, America/Santiago (daylight saving starting at local midnight, in some years on the first or last day of a month)), rendered as YAML text with generated quoting / case / names-vs-numbers / flow-vs-block / field order, parsed by yaml.Unmarshal, yaml.UnmarshalStrict and config.Load (all must accept); 24 (thorough 40) instants on the minute grid in 1970-2100: uniform, witnesses of the spec, witnesses with one field moved to a range edge +-1, month ends / 29 Feb / year ends (half of them in a month whose first or last local midnight does not exist, when the zone has one), +-2h around the zone's offset transitions. Oracle: ref.C15Contains (own leap/month-length/weekday arithmetic; only time.In trusted) vs ContainsTime (UTC instant; instant expressed in another zone when the spec names a location; via config.Load) and Intervener.Mutes (instant expressed in an arbitrary zone); same-minute relation (+1..59 s, +59.999999999 s); yaml.Marshal/Unmarshal of the parsed value keeps every verdict. 1 case in 7 carries one injected element instead: must be rejected by all three entry points when the stated validity rules exclude it (start>=end, malformed HH:MM, day 0, negative begin with positive end, unknown names, malformed ranges, unknown location), outcome free (only totality) where statement and docs are silent (reversed ranges, month 13, day 32, '29:-1', 'H:MM'). Explicitly empty lists are not generated here (see C15EmptyField). Non-trivial: no injection, the spec constrains >=2 fields or uses a negative day or a non-UTC location, AND the instants have both verdicts or one of them is a boundary (the reference verdict differs one minute earlier or later)."

func TestC15Calendar(t *testing.T) {
	pbt.Run(t, pbt.Spec[c15CalScenario]{
		Property: "C15", Name: "C15Calendar", Rule: c15CalRule,
		Gen: genC15Cal, Exec: execC15Cal,
	})
}

const c15EmptyRule = "as C15Calendar (no injection), but one or two of the list fields are written as an explicit empty list ('weekdays: []'); per the statement ('an empty field matching everything') and the docs ('within each non-empty list at least one element must be satisfied') such a field constrains nothing, and the YAML round trip must keep every verdict. Non-trivial: every case (the shape under test is present) whose instants include one the reference contains."

func TestC15EmptyField(t *testing.T) {
	pbt.Run(t, pbt.Spec[c15CalScenario]{
		Property: "C15", Name: "C15EmptyField", Rule: c15EmptyRule,
		Gen: genC15Empty,
		Exec: func(sc c15CalScenario) pbt.Result {
			res := execC15Cal(sc)
			some := false
			for _, c := range res.Classes {
				some = some || c == "some-contained"
			}
			res.NonTrivial = some
			return res
		},
	})
}

// genC15Null: a valid spec plus one YAML null as an element of a list field.
func genC15Null(t *rapid.T) c15CalScenario {
	var sc c15CalScenario
	sc.Spec = gen.C15DrawSpec(t)
	sc.Style = gen.C15DrawStyle(t)
	inj := gen.C15DrawNullInject(t)
	sc.Inject = &inj
	sc.Instants = gen.C15DrawInstants(t, sc.Spec, 8)
	sc.Sec = 1
	sc.NowZone = "UTC"
	return sc
}

const c15NullRule = "a valid generated spec (as C15Calendar) plus one YAML null ('~', 'null' or a dangling '-') as an element of times / weekdays / days_of_month / months / years. Whether such a spec is accepted is left free (statement silent); if yaml.Unmarshal or config.Load accepts it, the parsed value must not contain a range the stated validity rules exclude (time range with start >= end, day of month 0), ContainsTime must be total on 8 instants, and yaml.Marshal/Unmarshal of the value must be accepted and keep the verdicts. Non-trivial: the spec is accepted."

func TestC15NullElement(t *testing.T) {
	pbt.Run(t, pbt.Spec[c15CalScenario]{
		Property: "C15", Name: "C15NullElement", Rule: c15NullRule,
		Gen: genC15Null, Exec: execC15Cal,
	})
}

func init() {
	// Root cause: yaml.v2 does not call UnmarshalYAML for a null node, so a null
	// element of times / days_of_month becomes the zero range (00:00-00:00, day
	// 0:0) without passing the range validation; the value marshals to text the
	// parser itself rejects.
	pbt.RegisterSignature("c15-null-list-element", func(v pbt.Violation) bool {
		f, _ := v.Facts["null_element_field"].(string)
		switch v.Kind {
		case "invalid-range-accepted":
			return f == "times" || f == "days_of_month"
		case "roundtrip-reject":
			return f == "times" || f == "days_of_month"
		}
		return false
	})
	// Root cause: ContainsTime tests `field != nil` instead of `len(field) > 0`,
	// so a field given as an explicit empty YAML list matches nothing (and
	// yaml.Marshal drops it, so the reloaded interval matches everything).
	// Narrow: the spec has an explicit empty list, the reference contains the
	// instant, the code does not, and reading "empty list = nothing" explains
	// the code's verdict exactly.
	pbt.RegisterSignature("c15-explicit-empty-list", func(v pbt.Violation) bool {
		if v.Kind != "containment" && v.Kind != "seconds" && v.Kind != "roundtrip" {
			return false
		}
		ex, _ := v.Facts["explained_by_empty_list"].(bool)
		fields, _ := v.Facts["explicit_empty_fields"].([]string)
		want, _ := v.Facts["want"].(bool)
		got, isBool := v.Facts["got"].(bool)
		return ex && len(fields) > 0 && want && isBool && !got
	})
}
