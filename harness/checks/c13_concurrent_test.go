package checks

// C13Concurrent: "overlapping submissions of the same label set keep the earliest start" for submissions that race.
// The receive time of a POST (its updatedAt, and its default end) is taken when the handler starts; the alerts reach
// the provider later, so two requests can reach it in the opposite order of their receive times (quantifier: "out of
// order"). Several goroutines POST overlapping submissions of a few label sets on the real scheduler, some behind a
// long batch of filler alerts (received early, stored late); when all have returned GET /api/v2/alerts must show, per
// label set, the earliest submitted start, an end no earlier than the earliest and no later than the latest end any
// submission could have had, and the alert as active.

import (
	"context"
	"encoding/json"
	"fmt"
	"net/http/httptest"
	"strings"
	"sync"
	"testing"
	"time"

	"github.com/prometheus/client_golang/prometheus"
	"github.com/prometheus/common/model"
	"pgregory.net/rapid"

	"github.com/prometheus/alertmanager/alert"
	apiv2 "github.com/prometheus/alertmanager/api/v2"
	"github.com/prometheus/alertmanager/config"
	"github.com/prometheus/alertmanager/dispatch"
	"github.com/prometheus/alertmanager/eventrecorder"
	"github.com/prometheus/alertmanager/featurecontrol"
	"github.com/prometheus/alertmanager/matcher/compat"
	"github.com/prometheus/alertmanager/provider"
	"github.com/prometheus/alertmanager/provider/mem"

	"verif/harness/pbt"
)

type c13cPost struct {
	LS       int  `json:"ls"`        // contested label set
	StartMin int  `json:"start_min"` // explicit startsAt = t0 - StartMin minutes (0 = omitted: receive time)
	EndMin   int  `json:"end_min"`   // explicit endsAt = t0 + EndMin minutes (0 = omitted: receive time + resolve_timeout)
	Filler   int  `json:"filler"`    // uncontested alerts in the same batch
	Last     bool `json:"last"`      // contested alert at the end of the batch (else first)
}

type c13cScenario struct {
	Posters [][]c13cPost `json:"posters"` // per goroutine: its POSTs in order
}

func c13GenConcurrent(t *rapid.T) c13cScenario {
	var sc c13cScenario
	n := rapid.IntRange(3, 8).Draw(t, "posters")
	usedStart := map[[2]int]bool{}
	for i := 0; i < n; i++ {
		k := rapid.IntRange(1, 4).Draw(t, "posts")
		var ps []c13cPost
		for j := 0; j < k; j++ {
			p := c13cPost{LS: rapid.IntRange(0, 1).Draw(t, "ls"), Filler: rapid.SampledFrom([]int{0, 0, 5, 50, 300}).Draw(t, "filler"), Last: rapid.Bool().Draw(t, "last")}
			if rapid.IntRange(0, 3).Draw(t, "explicitStart") > 0 {
				p.StartMin = rapid.IntRange(1, 59).Draw(t, "startMin")
				for usedStart[[2]int{p.LS, p.StartMin}] {
					p.StartMin++
				}
				usedStart[[2]int{p.LS, p.StartMin}] = true
			}
			// an explicit end only next to an explicit start: a submission with an end and no start starts AT its
			// end ("a missing startsAt becomes the receive time (or endsAt)") and would not overlap the others
			if p.StartMin > 0 && rapid.IntRange(0, 3).Draw(t, "explicitEnd") == 0 {
				p.EndMin = rapid.IntRange(10, 50).Draw(t, "endMin")
			}
			ps = append(ps, p)
		}
		sc.Posters = append(sc.Posters, ps)
	}
	return sc
}

// c13cRecorder notes the order in which versions of the contested alerts reach the provider.
type c13cRecorder struct {
	provider.Alerts
	mu      sync.Mutex
	lastUpd map[model.Fingerprint]time.Time
	reorder int
	log     []string
}

func (r *c13cRecorder) Put(ctx context.Context, alerts ...*alert.Alert) error {
	r.mu.Lock()
	defer r.mu.Unlock()
	for _, a := range alerts {
		if _, ok := a.Labels["contested"]; !ok {
			continue
		}
		fp := a.Fingerprint()
		r.log = append(r.log, fmt.Sprintf("%s who=%s start=%s end=%s upd=%s timeout=%v", a.Labels["contested"], a.Annotations["who"], a.StartsAt.UTC().Format("15:04:05.000000"), a.EndsAt.UTC().Format("15:04:05.000000"), a.UpdatedAt.UTC().Format("15:04:05.000000"), a.Timeout))
		if last, ok := r.lastUpd[fp]; ok && a.UpdatedAt.Before(last) {
			r.reorder++
		} else {
			r.lastUpd[fp] = a.UpdatedAt
		}
	}
	return r.Alerts.Put(ctx, alerts...)
}

const c13cConfig = `
global:
  resolve_timeout: 5m
route:
  receiver: r0
receivers:
- name: r0
`

func c13ExecConcurrent(sc c13cScenario) (res pbt.Result) {
	compat.InitFromFlags(nopLog, featurecontrol.NoopFlags{})
	ctx, cancel := context.WithCancel(context.Background())
	defer cancel()
	reg := prometheus.NewRegistry()
	memAlerts, err := mem.NewAlerts(ctx, time.Hour, 0, nil, nopLog, eventrecorder.NopRecorder(), reg, featurecontrol.NoopFlags{})
	if err != nil {
		res.Fail("harness", "mem.NewAlerts: %v", err)
		return res
	}
	defer memAlerts.Close()
	recd := &c13cRecorder{Alerts: memAlerts, lastUpd: map[model.Fingerprint]time.Time{}}
	cfg, err := config.Load(c13cConfig)
	if err != nil {
		res.Fail("harness", "config.Load: %v", err)
		return res
	}
	groups := func(context.Context, func(*dispatch.Route) bool, func(*alert.Alert, time.Time) bool) (dispatch.AlertGroups, map[model.Fingerprint][]string, error) {
		return nil, nil, nil
	}
	api, err := apiv2.NewAPI(recd, groups, func(string, string) ([]string, bool) { return nil, false }, nil, nil, nopLog, reg)
	if err != nil {
		res.Fail("harness", "NewAPI: %v", err)
		return res
	}
	api.Update(cfg, func(context.Context, model.LabelSet) {})

	t0 := time.Now().UTC().Truncate(time.Millisecond)
	stamp := func(t time.Time) string { return t.Format("2006-01-02T15:04:05.000Z07:00") }
	type want struct {
		minStart          time.Time
		hasExplicitStart  bool
		minEnd, maxEnd    time.Time
		submissions       int
		anyImplicitStart  bool
		anyImplicitEndMin bool
	}
	var mu sync.Mutex
	var status []string
	start := make(chan struct{})
	var wg sync.WaitGroup
	for pi, posts := range sc.Posters {
		wg.Add(1)
		go func(pi int, posts []c13cPost) {
			defer wg.Done()
			<-start
			for j, p := range posts {
				var batch []map[string]any
				contested := map[string]any{"labels": map[string]string{"alertname": "A", "contested": fmt.Sprint(p.LS)}, "annotations": map[string]string{"who": fmt.Sprintf("%d.%d", pi, j)}}
				if p.StartMin > 0 {
					contested["startsAt"] = stamp(t0.Add(-time.Duration(p.StartMin) * time.Minute))
				}
				if p.EndMin > 0 {
					contested["endsAt"] = stamp(t0.Add(time.Duration(p.EndMin) * time.Minute))
				}
				if !p.Last {
					batch = append(batch, contested)
				}
				for f := 0; f < p.Filler; f++ {
					batch = append(batch, map[string]any{"labels": map[string]string{"alertname": "F", "p": fmt.Sprint(pi), "n": fmt.Sprint(f)}})
				}
				if p.Last {
					batch = append(batch, contested)
				}
				body, _ := json.Marshal(batch)
				req := httptest.NewRequest("POST", "/api/v2/alerts", strings.NewReader(string(body)))
				req.Header.Set("Content-Type", "application/json")
				w := httptest.NewRecorder()
				api.Handler.ServeHTTP(w, req)
				if w.Code != 200 {
					mu.Lock()
					status = append(status, fmt.Sprintf("poster %d post %d answered %d: %s", pi, j, w.Code, strings.TrimSpace(w.Body.String())))
					mu.Unlock()
				}
			}
		}(pi, posts)
	}
	close(start)
	wg.Wait()
	t1 := time.Now().UTC()
	for _, s := range status {
		res.Add(pbt.V("post-status", "%s", s))
	}

	wants := map[string]*want{}
	for _, posts := range sc.Posters {
		for _, p := range posts {
			k := fmt.Sprint(p.LS)
			w := wants[k]
			if w == nil {
				w = &want{}
				wants[k] = w
			}
			w.submissions++
			// the start of a submission without startsAt is its receive time, somewhere in [t0, t1]
			s := t0
			if p.StartMin > 0 {
				s = t0.Add(-time.Duration(p.StartMin) * time.Minute)
				if !w.hasExplicitStart || s.Before(w.minStart) {
					w.minStart = s
				}
				w.hasExplicitStart = true
			} else {
				w.anyImplicitStart = true
			}
			lo, hi := t0.Add(5*time.Minute), t1.Add(5*time.Minute)
			if p.EndMin > 0 {
				lo = t0.Add(time.Duration(p.EndMin) * time.Minute)
				hi = lo
			}
			if w.minEnd.IsZero() || lo.Before(w.minEnd) {
				w.minEnd = lo
			}
			if hi.After(w.maxEnd) {
				w.maxEnd = hi
			}
		}
	}

	req := httptest.NewRequest("GET", "/api/v2/alerts?filter=alertname%3DA", nil)
	w := httptest.NewRecorder()
	api.Handler.ServeHTTP(w, req)
	if w.Code != 200 {
		res.Add(pbt.V("get-status", "GET answered %d: %s", w.Code, w.Body.String()))
		return res
	}
	var got []struct {
		Labels   map[string]string `json:"labels"`
		StartsAt time.Time         `json:"startsAt"`
		EndsAt   time.Time         `json:"endsAt"`
	}
	if err := json.Unmarshal(w.Body.Bytes(), &got); err != nil {
		res.Add(pbt.V("get-body", "GET body does not decode: %v", err))
		return res
	}
	seen := map[string]bool{}
	for _, g := range got {
		k := g.Labels["contested"]
		wnt := wants[k]
		if wnt == nil {
			res.Add(pbt.V("store-foreign", "GET returned %v which nobody submitted", g.Labels))
			continue
		}
		seen[k] = true
		if wnt.hasExplicitStart {
			if !g.StartsAt.Equal(wnt.minStart) {
				res.Add(pbt.V("earliest-start-lost", "label set %s: %d overlapping submissions, earliest explicit start %s, GET shows startsAt %s (%d versions reached the provider after a more recently received one)",
					k, wnt.submissions, stamp(wnt.minStart), g.StartsAt.UTC().Format(time.RFC3339Nano), recd.reorder).With("arrivals", recd.log))
			}
		} else if g.StartsAt.Before(t0) || g.StartsAt.After(t1) {
			res.Add(pbt.V("start-outside-receive-window", "label set %s: no explicit start submitted, GET shows %s outside the receive window [%s, %s]", k, g.StartsAt.UTC().Format(time.RFC3339Nano), stamp(t0), t1.Format(time.RFC3339Nano)))
		}
		if g.EndsAt.Before(wnt.minEnd) || g.EndsAt.After(wnt.maxEnd) {
			res.Add(pbt.V("end-outside-submissions", "label set %s: GET shows endsAt %s, the submissions' ends lie in [%s, %s]", k, g.EndsAt.UTC().Format(time.RFC3339Nano), wnt.minEnd.Format(time.RFC3339Nano), wnt.maxEnd.Format(time.RFC3339Nano)))
		}
	}
	for k, wnt := range wants {
		if !seen[k] {
			res.Add(pbt.V("store-lost", "label set %s: %d submissions accepted, all unresolved, GET shows nothing", k, wnt.submissions))
		}
	}
	if recd.reorder > 0 {
		res.Class("reordered-arrival")
	}
	res.NonTrivial = recd.reorder > 0
	return res
}

func TestC13Concurrent(t *testing.T) {
	pbt.Run(t, pbt.Spec[c13cScenario]{
		Property: "C13", Name: "C13Concurrent",
		Rule: "3-8 goroutines each POST 1-4 batches to /api/v2/alerts at the same time on the real scheduler; every batch carries one submission of one of two contested label sets (explicit startsAt 1-59+ minutes in the past, distinct per label set, or omitted; explicit endsAt 10-50 minutes ahead (only next to an explicit start) or omitted; so all submissions of a label set overlap) first or last among 0-300 filler alerts (a long batch is received early and stored late). After all requests returned: every POST answered 200; GET shows each contested label set once, with startsAt = the earliest explicit start submitted (or, without one, inside the receive window), endsAt within the hull of the ends the submissions can have had (explicit, or receive time + resolve_timeout). A recording wrapper around the provider counts versions that reach it after a more recently received version of the same alert. Built with -race in the thorough tier. Non-trivial: at least one such out-of-order arrival happened.",
		Gen:  c13GenConcurrent, Exec: c13ExecConcurrent,
	})
}

// ---------------------------------------------------------------- C13PutOrder
//
// The same claim without the scheduler: versions of one alert (as the POST handler would build them: own receive
// time = updatedAt, explicit or defaulted start and end) are handed to the provider in a generated order that need
// not be the order of their receive times. All of them contain one common instant, so every pair overlaps; after
// every Put the stored alert must start at the earliest start handed over so far and carry the latest updatedAt.

type c13oVersion struct {
	UpdMs   int  `json:"upd_ms"`  // receive time, ms after the base instant (distinct)
	StartS  int  `json:"start_s"` // start = base - StartS seconds (>= 1)
	EndS    int  `json:"end_s"`   // end = base + 3600 + EndS seconds (explicit) …
	Timeout bool `json:"timeout"` // … or, when set, receive time + 2h marked as a resolve_timeout default
	Order   int  `json:"order"`   // arrival rank
	Anno    int  `json:"anno"`
}

type c13oScenario struct {
	Versions []c13oVersion `json:"versions"` // in arrival order
}

func c13GenPutOrder(t *rapid.T) c13oScenario {
	n := rapid.IntRange(2, 6).Draw(t, "n")
	used := map[int]bool{}
	var vs []c13oVersion
	for i := 0; i < n; i++ {
		u := rapid.IntRange(0, 50).Draw(t, "upd")
		for used[u] {
			u++
		}
		used[u] = true
		vs = append(vs, c13oVersion{UpdMs: u, StartS: rapid.IntRange(1, 600).Draw(t, "start"), EndS: rapid.IntRange(0, 600).Draw(t, "end"), Timeout: rapid.Bool().Draw(t, "timeout"), Anno: i})
	}
	perm := rapid.Permutation(vs).Draw(t, "arrival")
	return c13oScenario{Versions: perm}
}

func c13ExecPutOrder(sc c13oScenario) (res pbt.Result) {
	ctx, cancel := context.WithCancel(context.Background())
	defer cancel()
	memAlerts, err := mem.NewAlerts(ctx, time.Hour, 0, nil, nopLog, eventrecorder.NopRecorder(), prometheus.NewRegistry(), featurecontrol.NoopFlags{})
	if err != nil {
		res.Fail("harness", "mem.NewAlerts: %v", err)
		return res
	}
	defer memAlerts.Close()
	base := time.Date(2100, 1, 1, 0, 0, 0, 0, time.UTC) // nothing here reads the clock
	ls := model.LabelSet{"alertname": "A"}
	var minStart, maxUpd time.Time
	outOfOrder, covering := false, false
	for i, v := range sc.Versions {
		a := &alert.Alert{Alert: model.Alert{Labels: ls, Annotations: model.LabelSet{"v": model.LabelValue(fmt.Sprint(v.Anno))},
			StartsAt: base.Add(-time.Duration(v.StartS) * time.Second), EndsAt: base.Add(time.Hour + time.Duration(v.EndS)*time.Second)},
			UpdatedAt: base.Add(time.Duration(v.UpdMs) * time.Millisecond), Timeout: v.Timeout}
		if v.Timeout {
			a.EndsAt = a.UpdatedAt.Add(2 * time.Hour)
		}
		if i > 0 && a.UpdatedAt.Before(maxUpd) {
			outOfOrder = true
			if stored, err := memAlerts.Get(ls.Fingerprint()); err == nil && !a.StartsAt.After(stored.StartsAt) && !a.EndsAt.Before(stored.EndsAt) {
				covering = true
			}
		}
		if err := memAlerts.Put(ctx, a); err != nil {
			res.Add(pbt.V("put-error", "Put of version %d: %v", i, err))
			continue
		}
		if i == 0 || a.StartsAt.Before(minStart) {
			minStart = a.StartsAt
		}
		if a.UpdatedAt.After(maxUpd) {
			maxUpd = a.UpdatedAt
		}
		got, err := memAlerts.Get(ls.Fingerprint())
		if err != nil {
			res.Add(pbt.V("store-lost", "after Put %d the alert is not stored: %v", i, err))
			continue
		}
		if !got.StartsAt.Equal(minStart) {
			res.Add(pbt.V("earliest-start-lost", "after Put %d (updatedAt +%dms, start -%ds) the stored alert starts at %s, the earliest start handed over is %s",
				i, v.UpdMs, v.StartS, got.StartsAt.Sub(base), minStart.Sub(base)).With("out_of_order", outOfOrder))
		}
		if !got.UpdatedAt.Equal(maxUpd) {
			res.Add(pbt.V("older-version-stored", "after Put %d the stored alert carries updatedAt +%s, the latest handed over is +%s", i, got.UpdatedAt.Sub(base), maxUpd.Sub(base)))
		}
	}
	if outOfOrder {
		res.Class("out-of-order")
	}
	if covering {
		res.Class("older-version-covers-stored-range")
	}
	res.NonTrivial = outOfOrder
	return res
}

func TestC13PutOrder(t *testing.T) {
	pbt.Run(t, pbt.Spec[c13oScenario]{
		Property: "C13", Name: "C13PutOrder",
		Rule: "2-6 versions of one alert as the POST handler builds them (distinct receive times = updatedAt within 50 ms; start 1-600 s before a base instant; end explicit 60-70 min after it, or receive time + 2 h flagged as resolve_timeout default; so all activity ranges share the hour after the base instant) are handed to provider/mem Alerts.Put in a generated permutation. After every Put: the stored alert starts at the earliest start handed over so far and carries the latest updatedAt handed over. Non-trivial: at least one version arrives after a more recently received one.",
		Gen:  c13GenPutOrder, Exec: c13ExecPutOrder,
	})
}
