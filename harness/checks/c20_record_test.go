package checks

import (
	"context"
	"fmt"
	"testing"
	"testing/synctest"
	"time"

	"github.com/prometheus/client_golang/prometheus"
	"google.golang.org/protobuf/proto"
	"pgregory.net/rapid"

	"github.com/prometheus/alertmanager/eventrecorder"
	"github.com/prometheus/alertmanager/featurecontrol"
	"github.com/prometheus/alertmanager/inhibit"
	"github.com/prometheus/alertmanager/marker"
	"github.com/prometheus/alertmanager/nflog"
	"github.com/prometheus/alertmanager/nflog/nflogpb"
	"github.com/prometheus/alertmanager/notify"
	"github.com/prometheus/alertmanager/silence"
	"github.com/prometheus/alertmanager/timeinterval"

	"verif/harness/pbt"
)

// ----------------------------------------------------------- TestC20Record
//
// The real receiver pipeline built by notify.PipelineBuilder.New (gossip
// settle, inhibitor with no rules, time stages without intervals, silencer
// without silences, then the fan-out of Wait -> Dedup -> Retry -> SetNotifies
// chains) over a real nflog.Log, driven the way the dispatcher drives it:
// context with deadline and the routing keys, cancel() when Exec returns.

type c20Integ struct {
	Name         string `json:"name"`
	Idx          int    `json:"idx"`
	SendResolved bool   `json:"send_resolved"`
}

type c20Flush struct {
	// Kind "new": the batch contains at least one firing alert never sent before
	// (every integration must notify: first notification / new alerts in group).
	// Kind "resolve": every alert of the batch is resolved (an integration must
	// notify iff its log entry holds firing alerts).
	Kind       string      `json:"kind"`
	Batch      []c20BAlert `json:"batch"`
	DeadlineUs int64       `json:"deadline_us"`
	GapMs      int         `json:"gap_ms"`  // virtual time before this flush
	Scripts    []c20Script `json:"scripts"` // one per integration
}

type c20RecordScenario struct {
	Integs  []c20Integ `json:"integrations"`
	WaitMs  int        `json:"wait_ms"` // cluster wait (peer position × peer timeout)
	Flushes []c20Flush `json:"flushes"`
}

func genC20Record(t *rapid.T) c20RecordScenario {
	var sc c20RecordScenario
	ni := rapid.IntRange(1, 3).Draw(t, "nInteg")
	perName := map[string]int{}
	for i := 0; i < ni; i++ {
		name := rapid.SampledFrom([]string{"webhook", "webhook", "email"}).Draw(t, "iname")
		sc.Integs = append(sc.Integs, c20Integ{Name: name, Idx: perName[name], SendResolved: rapid.Bool().Draw(t, "sendResolved")})
		perName[name]++
	}
	if rapid.IntRange(0, 3).Draw(t, "waits") == 0 {
		sc.WaitMs = rapid.IntRange(1, 30000).Draw(t, "wait")
	}
	nf := rapid.IntRange(1, c20Scale(3, 5)).Draw(t, "nFlush")
	var known []string // names sent in earlier flushes
	for f := 0; f < nf; f++ {
		fl := c20Flush{GapMs: rapid.IntRange(1000, 600000).Draw(t, "gap"), DeadlineUs: genC20DeadlineUs(t)}
		if f > 0 && rapid.IntRange(0, 2).Draw(t, "resolveFlush") == 0 {
			fl.Kind = "resolve"
			for _, n := range known {
				fl.Batch = append(fl.Batch, c20BAlert{Name: n, Resolved: true})
			}
		} else {
			fl.Kind = "new"
			for _, n := range known {
				if rapid.IntRange(0, 3).Draw(t, "keep") != 0 {
					fl.Batch = append(fl.Batch, c20BAlert{Name: n, Resolved: rapid.IntRange(0, 2).Draw(t, "oldResolved") == 0})
				}
			}
			fresh := rapid.IntRange(1, 3).Draw(t, "nFresh")
			for i := 0; i < fresh; i++ {
				n := fmt.Sprintf("f%d-%d", f, i)
				// the first fresh alert fires; the others may already be resolved
				fl.Batch = append(fl.Batch, c20BAlert{Name: n, Resolved: i > 0 && rapid.IntRange(0, 3).Draw(t, "freshResolved") == 0})
				known = append(known, n)
			}
		}
		// most flushes: at least one sibling with a quick success next to failing ones
		for i := 0; i < ni; i++ {
			if rapid.IntRange(0, 2).Draw(t, "quickOK") == 0 {
				fl.Scripts = append(fl.Scripts, c20Script{Tail: c20Step{Kind: "ok"}})
			} else {
				fl.Scripts = append(fl.Scripts, genC20Script(t))
			}
		}
		sc.Flushes = append(sc.Flushes, fl)
	}
	return sc
}

type c20FlushObs struct {
	Before, After []*nflogpb.Entry // per integration; nil = no entry
	Recs          [][]c20Attempt
	T0            time.Time
	Err           error
	OutLen        int
	RetAt         time.Duration
	QueryErr      string
}

const (
	c20Recv     = "team-X"
	c20GroupKey = "{}/{grp=\"g\"}:{grp=\"g\"}"
)

func c20QueryEntry(nl *nflog.Log, in c20Integ) (*nflogpb.Entry, error) {
	es, err := nl.Query(nflog.QGroupKey(c20GroupKey), nflog.QReceiver(&nflogpb.Receiver{GroupName: c20Recv, Integration: in.Name, Idx: uint32(in.Idx)}))
	if err == nflog.ErrNotFound {
		return nil, nil
	}
	if err != nil {
		return nil, err
	}
	if len(es) != 1 {
		return nil, fmt.Errorf("%d entries", len(es))
	}
	return proto.Clone(es[0]).(*nflogpb.Entry), nil
}

func execC20Record(sc c20RecordScenario) (res pbt.Result) {
	obs := make([]c20FlushObs, len(sc.Flushes))
	var setupErr error
	bubble(func() {
		reg := prometheus.NewRegistry()
		rec := eventrecorder.NopRecorder()
		nl, err := nflog.New(nflog.Options{Retention: 120 * time.Hour, Metrics: reg})
		if err != nil {
			setupErr = err
			return
		}
		sils, err := silence.New(silence.Options{Retention: time.Hour, Metrics: reg, EventRecorder: rec})
		if err != nil {
			setupErr = err
			return
		}
		notifiers := make([]*c20Notifier, len(sc.Integs))
		var integs []notify.Integration
		for i, in := range sc.Integs {
			notifiers[i] = &c20Notifier{}
			integs = append(integs, notify.NewIntegration(notifiers[i], c20RS(in.SendResolved), in.Name, in.Idx, c20Recv))
		}
		wait := func() time.Duration { return time.Duration(sc.WaitMs) * time.Millisecond }
		pipeline := notify.NewPipelineBuilder(reg, featurecontrol.NoopFlags{}, rec).New(
			map[string][]notify.Integration{c20Recv: integs},
			wait,
			inhibit.NewInhibitor(nil, nil, nopLog, rec),
			silence.NewSilencer(sils, nopLog, rec),
			timeinterval.NewIntervener(nil),
			marker.NewGroupMarker(),
			nl,
			nil,
		)
		for f, fl := range sc.Flushes {
			time.Sleep(time.Duration(fl.GapMs) * time.Millisecond)
			o := &obs[f]
			o.Before = make([]*nflogpb.Entry, len(sc.Integs))
			o.After = make([]*nflogpb.Entry, len(sc.Integs))
			for i, in := range sc.Integs {
				if o.Before[i], err = c20QueryEntry(nl, in); err != nil {
					o.QueryErr = err.Error()
				}
			}
			t0 := time.Now()
			o.T0 = t0
			alerts := c20BuildBatch(fl.Batch, t0)
			for i := range notifiers {
				notifiers[i].arm(fl.Scripts[i], t0)
			}
			ctx, cancel := context.WithDeadline(context.Background(), t0.Add(time.Duration(fl.DeadlineUs)*time.Microsecond))
			ctx = notify.WithNow(ctx, t0)
			ctx = notify.WithGroupKey(ctx, c20GroupKey)
			ctx = notify.WithGroupLabels(ctx, toLabelSet(map[string]string{"grp": "g"}))
			ctx = notify.WithReceiverName(ctx, c20Recv)
			ctx = notify.WithRepeatInterval(ctx, 4*time.Hour)
			ctx = notify.WithMuteTimeIntervals(ctx, nil)
			ctx = notify.WithActiveTimeIntervals(ctx, nil)
			ctx = notify.WithRouteID(ctx, "{}/{grp=\"g\"}/0")
			_, out, err := pipeline.Exec(ctx, nopLog, alerts...)
			o.RetAt = time.Since(t0)
			o.Err, o.OutLen = err, len(out)
			// the dispatcher cancels the flush context as soon as the pipeline returns
			cancel()
			// (the real fan-out has joined every chain by now; a chain still inside an attempt
			// that ignores the context is waited for, so that nothing leaks into the next flush)
			for synctest.Wait(); !c20AllIdle(notifiers); synctest.Wait() {
				time.Sleep(time.Second)
			}
			o.Recs = make([][]c20Attempt, len(sc.Integs))
			for i, in := range sc.Integs {
				o.Recs[i] = notifiers[i].attempts()
				if o.After[i], err = c20QueryEntry(nl, in); err != nil {
					o.QueryErr = err.Error()
				}
			}
		}
	})
	if setupErr != nil {
		res.Fail("harness", "setup: %v", setupErr)
		return res
	}

	wait := time.Duration(sc.WaitMs) * time.Millisecond
	for f, fl := range sc.Flushes {
		o := obs[f]
		if o.QueryErr != "" {
			res.Fail("record-query", "flush %d: nflog query: %s", f+1, o.QueryErr)
			continue
		}
		deadline := time.Duration(fl.DeadlineUs) * time.Microsecond
		anyFail, anyFree, anySuccess := false, false, false
		for i, in := range sc.Integs {
			who := fmt.Sprintf("flush %d %s[%d]", f+1, in.Name, in.Idx)
			recs := o.Recs[i]
			before, after := o.Before[i], o.After[i]
			changed := !proto.Equal(before, after)
			want, firing := c20Expected(fl.Batch, in.SendResolved)
			engaged := true
			if fl.Kind == "resolve" {
				// docs: a resolved notification is only due when the receiver was told about firing alerts
				engaged = before != nil && len(before.FiringAlerts) > 0
			}
			addV := func(kind, f string, a ...any) {
				res.Add(pbt.V(kind, who+": "+f, a...).With("integration", in.Name).With("flush_kind", fl.Kind))
			}
			// a flush whose deadline does not outlast the cluster wait fails (or not) in the wait
			// stage already; which one is scheduling-dependent for chains that have nothing to send
			expiredInWait := deadline <= wait+c20Slack
			switch {
			case !engaged:
				if expiredInWait {
					anyFree = true
				}
				if len(recs) != 0 {
					addV("record-unexpected-attempt", "nothing to notify (all resolved, no firing alert on record) but %d attempts", len(recs))
				}
				if changed {
					addV("record-without-success", "log entry changed although nothing was notified: %v -> %v", before, after)
				}
				res.Class("integration:not-due")
				continue
			case !in.SendResolved && firing == 0:
				// nothing left to deliver after dropping the resolved alerts: the notifier is not
				// called, nothing fails, and the chain still records that nothing fires any more
				// (DESIGN: "it is not called and the log is still written") -- unless the flush
				// context expired before the chain got that far.
				if len(recs) != 0 {
					addV("record-called-with-nothing-to-send", "send_resolved off, nothing firing, but %d attempts (first with %v)", len(recs), recs[0].Alerts)
				}
				if !expiredInWait {
					if !changed {
						addV("record-resolution-not-logged", "send_resolved off, all resolved: log entry still %v", before)
					} else if len(after.FiringAlerts) != 0 {
						addV("record-wrong-content", "entry lists %d firing alerts, batch has none", len(after.FiringAlerts))
					}
					anySuccess = true
				} else {
					anyFree = true
				}
				res.Class("integration:nothing-to-send")
				continue
			}
			vs, outcome, successEnd := c20JudgeAttempts(who, recs, wait, deadline, want)
			res.Add(vs...)
			res.Class("integration:" + string(outcome))
			switch outcome {
			case c20Success:
				anySuccess = true
				switch {
				case !changed || after == nil:
					addV("record-missing-after-success", "attempt %d succeeded at %v but the log entry did not change (%v)", len(recs), successEnd, after)
				default:
					if ts := after.Timestamp.AsTime(); ts.Before(o.T0.Add(successEnd)) {
						addV("record-before-success", "entry timestamp %v is before the success at %v", ts.Sub(o.T0), successEnd)
					}
					if len(after.FiringAlerts) != firing {
						addV("record-wrong-content", "entry lists %d firing alerts, batch has %d", len(after.FiringAlerts), firing)
					}
					if in.SendResolved && len(after.ResolvedAlerts) != len(fl.Batch)-firing {
						addV("record-wrong-content", "entry lists %d resolved alerts, batch has %d", len(after.ResolvedAlerts), len(fl.Batch)-firing)
					}
				}
			case c20LateSuccess:
				anyFree = true
			default:
				anyFail = true
				if changed {
					addV("record-without-success", "outcome %s after %d attempts but the log entry changed: %v -> %v", outcome, len(recs), before, after)
				}
			}
		}
		switch {
		case anyFail && o.Err == nil:
			res.Add(pbt.V("fanout-failure-not-reported", "flush %d: an integration failed but the pipeline returned nil", f+1))
		case !anyFail && !anyFree && o.Err != nil:
			res.Add(pbt.V("fanout-spurious-error", "flush %d: no integration failed but the pipeline returned %v", f+1, o.Err))
		}
		if anyFail && anySuccess {
			res.Class("flush:mixed-siblings")
			res.NonTrivial = true
		}
		if anyFail {
			res.Class("flush:some-failed")
		} else {
			res.Class("flush:none-failed")
		}
		res.Class("flush-kind:" + fl.Kind)
	}
	if len(sc.Integs) == 1 {
		// single integration: non-trivial when a failing flush is followed or preceded by a recording one
		for f := range sc.Flushes {
			if obs[f].Err != nil {
				res.NonTrivial = true
			}
		}
	}
	res.Class(fmt.Sprintf("integrations:%d", len(sc.Integs)))
	res.Sample = map[string]any{"integrations": sc.Integs, "flushes": len(sc.Flushes), "wait_ms": sc.WaitMs}
	return res
}

func TestC20Record(t *testing.T) {
	pbt.Run(t, pbt.Spec[c20RecordScenario]{
		Property: "C20", Name: "C20Record",
		Rule: "the receiver pipeline of notify.PipelineBuilder.New over a real nflog.Log in a synctest bubble, 1-3 sibling integrations (send_resolved on/off) each with its own per-flush outcome script (as C20Retry; one third are immediate successes), optional cluster wait 1 ms-30 s, 1-3 (thorough: 1-5) consecutive flushes 1 s-10 min apart: kind 'new' (batch holds a firing alert never sent before, so every integration is due) or 'resolve' (all alerts resolved; due iff the integration's log entry holds firing alerts); the flush context is cancelled when the pipeline returns, as the dispatcher does. Per integration the C20Retry attempt oracle plus: log entry changes iff an attempt reported success before the deadline (timestamp >= that success, firing/resolved counts of the batch), unchanged on failure or when nothing was due; send_resolved off with nothing firing: notifier not called, entry rewritten with no firing alerts. Pipeline error iff some integration failed (late successes of context-ignoring attempts free). Non-trivial: a flush in which one sibling failed/hung and another recorded, or (single integration) a failing flush.",
		Gen:  genC20Record, Exec: execC20Record,
	})
}
