package checks

import (
	"fmt"
	"strings"
	"testing"
	"unicode/utf8"

	"pgregory.net/rapid"

	"github.com/prometheus/alertmanager/notify"

	"verif/harness/pbt"
	"verif/harness/ref"
)

// ------------------------------------------------------------- truncation

// c20TruncScenario: S is a byte slice because it may be invalid UTF-8.
type c20TruncScenario struct {
	S []byte `json:"s"`
	N int    `json:"n"`
}

var c20Atoms = []string{
	"a", "Z", "0", " ", ".", "\n", // ASCII
	"é", "ß", // 2 bytes
	"世", "界", "…", // 3 bytes (incl. the truncation marker itself)
	"🙂", "𝄞", // 4 bytes
	"é", // base + combining mark
}

var c20BadAtoms = []string{"\xff", "\xc3", "\xe4\xb8", "\xf0\x9f\x99", "\x80", "\xed\xa0\x80", "\xc0\xaf"}

func genC20String(t *rapid.T) []byte {
	var runes int
	switch rapid.IntRange(0, 5).Draw(t, "lenClass") {
	case 0:
		runes = rapid.IntRange(0, 6).Draw(t, "len")
	case 1, 2:
		runes = rapid.IntRange(28, 37).Draw(t, "len") // around the 32-rune stack buffer of []rune(s)
	case 3:
		runes = rapid.IntRange(7, 70).Draw(t, "len")
	case 4:
		runes = rapid.IntRange(90, 140).Draw(t, "len")
	default:
		runes = rapid.IntRange(200, c20Scale(700, 3000)).Draw(t, "len")
	}
	mode := rapid.IntRange(0, 5).Draw(t, "alphabet")
	var sb strings.Builder
	if mode <= 2 && runes > 0 {
		// homogeneous: one atom repeated (ASCII only / CJK only / emoji only ...)
		atom := rapid.SampledFrom(c20Atoms).Draw(t, "atom")
		for i := 0; i < runes; i++ {
			sb.WriteString(atom)
		}
		return []byte(sb.String())
	}
	// mixed; mode 5 also splices invalid sequences in
	pool := c20Atoms
	if mode == 5 {
		pool = append(append([]string{}, c20Atoms...), c20BadAtoms...)
	}
	if runes > 80 {
		// long mixed strings: repeat a short drawn pattern (keeps the draw count small)
		pat := rapid.SliceOfN(rapid.SampledFrom(pool), 1, 9).Draw(t, "pattern")
		for i := 0; i < runes; i++ {
			sb.WriteString(pat[i%len(pat)])
		}
	} else {
		for i := 0; i < runes; i++ {
			sb.WriteString(rapid.SampledFrom(pool).Draw(t, "a"))
		}
	}
	b := []byte(sb.String())
	if mode == 5 && len(b) > 0 && rapid.Bool().Draw(t, "chop") {
		// cut in the middle of a sequence
		b = b[:rapid.IntRange(0, len(b)-1).Draw(t, "chopAt")]
	}
	return b
}

func genC20Trunc(t *rapid.T) c20TruncScenario {
	s := genC20String(t)
	nb, nr := len(s), utf8.RuneCount(s)
	var n int
	switch rapid.IntRange(0, 6).Draw(t, "nClass") {
	case 0:
		n = rapid.IntRange(0, 5).Draw(t, "n")
	case 1:
		n = nb + rapid.IntRange(-6, 3).Draw(t, "dn") // around the byte length
	case 2:
		n = nr + rapid.IntRange(-6, 6).Draw(t, "dn") // around the rune count (F7: rune count < n-3 < byte length)
	case 3:
		n = rapid.IntRange(nr, max(nr, nb)).Draw(t, "n") // between rune count and byte length
	case 4:
		n = rapid.IntRange(0, max(1, nr)).Draw(t, "n")
	case 5:
		n = rapid.IntRange(28, 40).Draw(t, "n")
	default:
		n = rapid.IntRange(0, 2*nb+8).Draw(t, "n")
	}
	if n < 0 {
		n = 0
	}
	return c20TruncScenario{S: s, N: n}
}

// c20CallTrunc calls f and converts a panic into a reported value.
func c20CallTrunc(f func(string, int) (string, bool), s string, n int) (out string, tr bool, pan any) {
	defer func() {
		if r := recover(); r != nil {
			pan = r
		}
	}()
	out, tr = f(s, n)
	return out, tr, nil
}

// c20JudgeTrunc runs both truncation functions on the scenario.
func c20JudgeTrunc(sc c20TruncScenario) (vs []pbt.Violation, truncated bool) {
	in := string(sc.S)
	for _, fn := range []struct {
		name, unit string
		f          func(string, int) (string, bool)
	}{
		{"TruncateInRunes", "runes", notify.TruncateInRunes},
		{"TruncateInBytes", "bytes", notify.TruncateInBytes},
	} {
		out, tr, pan := c20CallTrunc(fn.f, in, sc.N)
		if pan != nil {
			vs = append(vs, pbt.V("truncate-panic", "%s(%d bytes/%d runes, n=%d) panicked: %v", fn.name, len(in), utf8.RuneCountInString(in), sc.N, pan).
				With("fn", fn.name).With("valid_utf8", utf8.ValidString(in)))
			continue
		}
		if tr {
			truncated = true
		}
		for _, is := range ref.C20JudgeTruncate(fn.unit, sc.S, sc.N, out, tr) {
			vs = append(vs, pbt.V("truncate-"+is.Kind, "%s(%q…[%d bytes, %d runes], n=%d): %s", fn.name, c20Head(in), len(in), utf8.RuneCountInString(in), sc.N, is.Msg).
				With("fn", fn.name).With("valid_utf8", utf8.ValidString(in)))
		}
	}
	return vs, truncated
}

func c20Head(s string) string {
	if len(s) > 24 {
		return s[:24]
	}
	return s
}

func execC20Trunc(sc c20TruncScenario) (res pbt.Result) {
	vs, truncated := c20JudgeTrunc(sc)
	res.Add(vs...)
	in := string(sc.S)
	nr := utf8.RuneCountInString(in)
	res.NonTrivial = truncated
	switch {
	case !utf8.ValidString(in):
		res.Class("invalid-utf8")
	case len(in) == nr:
		res.Class("ascii")
	default:
		res.Class("multibyte")
	}
	switch {
	case nr <= 32:
		res.Class("runes<=32")
	case nr <= 80:
		res.Class("runes 33-80")
	default:
		res.Class("runes>80")
	}
	if nr > 32 && len(in) > sc.N && nr < sc.N-3 {
		res.Class("F7-shape(runes>32, runes<n-3<bytes)")
	}
	if sc.N <= 3 {
		res.Class("n<=3")
	}
	if truncated {
		res.Class("truncated")
	}
	res.Sample = map[string]any{"s_head": c20Head(in), "bytes": len(in), "runes": nr, "n": sc.N}
	return res
}

const c20TruncRule = "strings built from ASCII, 2/3/4-byte, combining and invalid-UTF-8 atoms (homogeneous, mixed, chopped mid-sequence), rune lengths 0-6, 28-37 (around the 32-rune stack buffer), up to 700 (thorough: 3000); limit n >= 0 drawn around the byte length, around the rune count, between both, tiny (0-5) and large. Both notify.TruncateInRunes and notify.TruncateInBytes are judged per case: result size <= n, unchanged+false iff it fits, result (minus marker) is a prefix, valid UTF-8 when the input is, no panic. Non-trivial: at least one of the two functions truncated."

func TestC20Truncate(t *testing.T) {
	pbt.Run(t, pbt.Spec[c20TruncScenario]{
		Property: "C20", Name: "C20Truncate", Rule: c20TruncRule,
		Gen: genC20Trunc, Exec: execC20Trunc,
	})
}

// FuzzC20Truncate: native coverage-guided fuzzing with the same oracle.
func FuzzC20Truncate(f *testing.F) {
	f.Add([]byte(""), 0)
	f.Add([]byte("abc"), 2)
	f.Add([]byte(strings.Repeat("世", 33)), 98) // F7
	f.Add([]byte(strings.Repeat("世", 10)), 20)
	f.Add([]byte(strings.Repeat("a", 40)), 32)
	f.Add([]byte(strings.Repeat("🙂", 33)), 131)
	f.Add([]byte("a\xffb\xc3"), 3)
	f.Add([]byte(strings.Repeat("é", 32)+"…"), 35)
	f.Fuzz(func(t *testing.T, s []byte, n int) {
		if n < 0 {
			n = -(n + 1)
		}
		n %= 4096
		vs, _ := c20JudgeTrunc(c20TruncScenario{S: s, N: n})
		if len(vs) > 0 {
			t.Fatalf("C20 truncation contract violated: [%s] %s", vs[0].Kind, fmt.Sprint(vs[0].Message))
		}
	})
}
