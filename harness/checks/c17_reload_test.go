package checks

import (
	"crypto/md5"
	"encoding/binary"
	"errors"
	"fmt"
	"os"
	"path/filepath"
	"testing"

	"github.com/prometheus/client_golang/prometheus"
	dto "github.com/prometheus/client_model/go"
	"pgregory.net/rapid"

	"github.com/prometheus/alertmanager/config"

	"verif/harness/gen"
	"verif/harness/pbt"
)

// One step of a reload history.
type c17ReloadStep struct {
	// Content of the configuration file before Reload is called; Remove deletes the file instead.
	Content []byte `json:"content"`
	Remove  bool   `json:"remove,omitempty"`
	// Loadable: by construction the content is a valid configuration whose root receiver is Marker.
	Loadable bool   `json:"loadable"`
	Marker   string `json:"marker,omitempty"`
	// Fail[i]: subscriber i returns an error if it is invoked during this step.
	Fail []bool `json:"fail"`
	// Subscribe: add one more recording subscriber before this step's Reload.
	Subscribe bool `json:"subscribe,omitempty"`
}

type c17ReloadScenario struct {
	Subscribers int             `json:"subscribers"` // initial number (>=1)
	Steps       []c17ReloadStep `json:"steps"`
}

// breaches that config.Load always rejects (no known-defect shape among them)
var c17ReloadBreaches = []string{"root-matchers", "root-mute", "root-no-receiver", "undefined-receiver", "dup-receiver", "group-by-dup", "group-by-mixed", "zero-gi", "zero-ri", "undefined-mute-interval", "dup-interval", "null-route"}

func c17GenReload(t *rapid.T) c17ReloadScenario {
	sc := c17ReloadScenario{Subscribers: rapid.IntRange(1, 4).Draw(t, "subscribers")}
	if rapid.IntRange(0, 2).Draw(t, "single") == 0 {
		sc.Subscribers = 1 // the production wiring has exactly one subscriber
	}
	nsub := sc.Subscribers
	n := rapid.IntRange(1, 8).Draw(t, "steps")
	for i := 0; i < n; i++ {
		st := c17ReloadStep{}
		if i > 0 && rapid.IntRange(0, 7).Draw(t, "subscribe") == 0 {
			st.Subscribe = true
			nsub++
		}
		switch k := rapid.IntRange(0, 9).Draw(t, "content"); {
		case k < 5:
			st.Loadable = true
			st.Marker = fmt.Sprintf("m%d", i)
			extra := rapid.SampledFrom([]string{"", "  group_by: [alertname]\n", "  group_wait: 1s\n  routes:\n  - matchers: [a=\"b\"]\n", "  repeat_interval: 1h\n"}).Draw(t, "extra")
			// sometimes a receiver that relies on a built-in default endpoint (no URL of its own, no global override)
			other := rapid.SampledFrom([]string{"- name: other\n", "- name: other\n  pagerduty_configs:\n  - routing_key: k\n", "- name: other\n  opsgenie_configs:\n  - api_key: k\n"}).Draw(t, "other")
			st.Content = []byte("route:\n  receiver: " + st.Marker + "\n" + extra + "receivers:\n" + other + "- name: " + st.Marker + "\n")
		case k < 6:
			st.Content = []byte(rapid.SampledFrom([]string{"", "   \n", "route: [", "{", "route:\n  receiver: x\n", "receivers: []\n", "\x00", "route:\n  receiver: a\n  continue: true\nreceivers:\n- name: a\n", "global:\n  nosuchfield: 1\nroute:\n  receiver: a\nreceivers:\n- name: a\n",
				// rejected files that override built-in default endpoints before they fail
				"global:\n  pagerduty_url: http://127.0.0.1:9/rejected\n  opsgenie_api_url: http://127.0.0.1:9/rejected\nroute:\n  receiver: undefined\nreceivers:\n- name: a\n",
				"global:\n  pagerduty_url: http://127.0.0.1:9/rejected2\n  nosuchfield: 1\nroute:\n  receiver: a\nreceivers:\n- name: a\n"}).Draw(t, "garbage"))
		case k < 8:
			st.Content = []byte(gen.C17Config(t, gen.C17Opts{Breach: rapid.SampledFrom(c17ReloadBreaches).Draw(t, "breach")}).YAML)
		case k < 9:
			// a hostile skeleton may happen to be valid; a leading control character makes it unloadable for sure
			st.Content = append([]byte("\x01\n"), gen.C17HostileDoc(t)...)
		default:
			st.Remove = true
		}
		st.Fail = make([]bool, nsub)
		if rapid.IntRange(0, 2).Draw(t, "anyFail") == 0 {
			for j := range st.Fail {
				st.Fail[j] = rapid.IntRange(0, 2).Draw(t, "fail") == 0
			}
		}
		sc.Steps = append(sc.Steps, st)
	}
	return sc
}

func c17Gauge(reg *prometheus.Registry, name string) (float64, bool) {
	mfs, err := reg.Gather()
	if err != nil {
		return 0, false
	}
	for _, mf := range mfs {
		if mf.GetName() == name && mf.GetType() == dto.MetricType_GAUGE && len(mf.Metric) == 1 {
			return mf.Metric[0].GetGauge().GetValue(), true
		}
	}
	return 0, false
}

// c17ConfigHash: "Hash of the currently loaded alertmanager configuration": the
// first 48 bits of the MD5 of the file content, as documented by the metric's
// implementation comment (a float64 holds 53 bits).
func c17ConfigHash(content []byte) float64 {
	sum := md5.Sum(content)
	b := make([]byte, 8)
	copy(b, sum[:6])
	return float64(binary.LittleEndian.Uint64(b))
}

type c17Sub struct {
	calls   []*config.Config // configurations this subscriber was invoked with during the current step
	applied string           // marker of the last configuration it accepted ("" = none)
	cfg     *config.Config   // the configuration object it accepted last ...
	text    string           // ... and its textual form at that moment
	prevCfg *config.Config   // what it held before this step
	prevTxt string
}

func c17ExecReload(sc c17ReloadScenario) (res pbt.Result) {
	c17SetMode("fallback")
	dir, err := os.MkdirTemp("", "c17reload")
	if err != nil {
		res.Fail("harness", "temp dir: %v", err)
		return res
	}
	defer os.RemoveAll(dir)
	path := filepath.Join(dir, "alertmanager.yml")
	reg := prometheus.NewRegistry()
	co := config.NewCoordinator(path, reg, nopLog)

	var subs []*c17Sub
	var order []int // invocation order within the current step
	var stepFail []bool
	addSub := func() {
		i := len(subs)
		s := &c17Sub{}
		subs = append(subs, s)
		co.Subscribe(func(c *config.Config) error {
			order = append(order, i)
			s.calls = append(s.calls, c)
			if i < len(stepFail) && stepFail[i] {
				return errors.New("subscriber refuses")
			}
			if c != nil && c.Route != nil {
				s.applied = c.Route.Receiver
				s.cfg, s.text = c, c.String()
			} else {
				s.applied = "<nil>"
			}
			return nil
		})
	}
	for i := 0; i < sc.Subscribers; i++ {
		addSub()
	}

	running := ""             // marker of the configuration in force (last fully successful reload)
	var runningContent []byte // its file content
	rejected, accepted, subFailures, loadFailures, recovered := 0, 0, 0, 0, 0
	lastRejected := false
	for si, st := range sc.Steps {
		if st.Subscribe {
			addSub()
		}
		if st.Remove {
			os.Remove(path)
		} else if err := os.WriteFile(path, st.Content, 0o644); err != nil {
			res.Fail("harness", "write: %v", err)
			return res
		}
		if st.Loadable {
			// generator contract
			if c, err, pnc := c17Load(string(st.Content)); pnc != nil || err != nil || c.Route.Receiver != st.Marker {
				res.Fail("generator", "step %d: content marked loadable does not load to marker %q: %v", si, st.Marker, err)
				return res
			}
		} else if !st.Remove {
			if _, err, pnc := c17Load(string(st.Content)); pnc == nil && err == nil {
				res.Fail("generator", "step %d: content marked unloadable loads", si)
				return res
			}
		}
		before := make([]string, len(subs))
		for i, s := range subs {
			before[i] = s.applied
			s.calls = nil
			s.prevCfg, s.prevTxt = s.cfg, s.text
		}
		order = nil
		stepFail = st.Fail

		var rerr error
		func() {
			defer func() {
				if r := recover(); r != nil {
					res.Add(pbt.V("reload-panic", "step %d: Coordinator.Reload panicked: %v", si, r))
					rerr = fmt.Errorf("panic")
				}
			}()
			rerr = co.Reload()
		}()
		if len(res.Violations) > 0 {
			return res
		}
		// "a rejected reload leaves the running configuration in force": the configuration object a subscriber
		// is running with must still say what it said when it was applied, whatever was loaded (and rejected) since
		for i, s := range subs {
			if s.cfg != nil && s.cfg == s.prevCfg && s.cfg.String() != s.prevTxt {
				res.Add(pbt.V("running-config-mutated", "step %d: the configuration subscriber %d is running with changed its textual form although it was not replaced (reload error: %v)", si, i, rerr))
			}
		}
		if len(res.Violations) > 0 {
			return res
		}

		firstFail := -1
		for i := range subs {
			if i < len(st.Fail) && st.Fail[i] {
				firstFail = i
				break
			}
		}
		wantErr := !st.Loadable || firstFail >= 0
		if (rerr != nil) != wantErr {
			res.Add(pbt.V("reload-verdict", "step %d: Reload returned %v; file loadable=%v, first failing subscriber=%d", si, rerr, st.Loadable, firstFail).With("loadable", st.Loadable).With("first_fail", firstFail))
		}
		switch {
		case !st.Loadable:
			// a configuration that does not load reaches nobody
			loadFailures++
			if len(order) != 0 {
				res.Add(pbt.V("unloadable-config-applied", "step %d: the file does not load but subscribers %v were invoked", si, order))
			}
			for i, s := range subs {
				if s.applied != before[i] {
					res.Add(pbt.V("rejected-reload-changed-running-config", "step %d: file does not load, yet subscriber %d now runs %q instead of %q", si, i, s.applied, before[i]))
				}
			}
		case firstFail >= 0:
			// What Coordinator.Reload guarantees: subscribers are invoked in
			// subscription order with the one new configuration, notification stops
			// at the first that refuses; the refusing one and all later ones keep
			// what they had. (Earlier ones have taken the new configuration: the
			// coordinator has no rollback - the production wiring has one subscriber.)
			subFailures++
			if len(order) != firstFail+1 {
				res.Add(pbt.V("notify-after-failure", "step %d: subscriber %d refuses; invocation order %v, want 0..%d", si, firstFail, order, firstFail))
			}
			for i := firstFail; i < len(subs); i++ {
				if subs[i].applied != before[i] {
					res.Add(pbt.V("rejected-reload-changed-running-config", "step %d: subscriber %d refused, yet subscriber %d now runs %q instead of %q", si, firstFail, i, subs[i].applied, before[i]))
				}
			}
			if len(subs) == 1 && subs[0].applied != running {
				res.Add(pbt.V("rejected-reload-changed-running-config", "step %d: single subscriber refused; running configuration is %q, want %q", si, subs[0].applied, running))
			}
		default:
			accepted++
			if lastRejected {
				recovered++
			}
			for i, s := range subs {
				if s.applied != st.Marker {
					res.Add(pbt.V("valid-reload-not-applied", "step %d: valid reload, but subscriber %d runs %q, want %q", si, i, s.applied, st.Marker))
				}
			}
		}
		// order and single delivery, whenever anybody was invoked
		for k, i := range order {
			if i != k {
				res.Add(pbt.V("notify-order", "step %d: subscribers invoked in order %v, want subscription order", si, order))
				break
			}
		}
		var delivered *config.Config
		for i, s := range subs {
			if len(s.calls) > 1 {
				res.Add(pbt.V("notify-twice", "step %d: subscriber %d invoked %d times in one reload", si, i, len(s.calls)))
			}
			for _, c := range s.calls {
				if c == nil {
					res.Add(pbt.V("nil-config-delivered", "step %d: subscriber %d was handed a nil configuration", si, i))
					continue
				}
				if delivered == nil {
					delivered = c
				} else if delivered != c {
					res.Add(pbt.V("different-configs-delivered", "step %d: subscribers were handed different configurations in one reload", si))
				}
				if st.Loadable && c.Route != nil && c.Route.Receiver != st.Marker {
					res.Add(pbt.V("stale-config-delivered", "step %d: subscriber %d was handed config %q, the file holds %q", si, i, c.Route.Receiver, st.Marker))
				}
			}
		}
		// metrics describe the configuration in force
		if rerr == nil && wantErr == false {
			running, runningContent = st.Marker, st.Content
		}
		lastRejected = wantErr
		if wantErr {
			rejected++
		}
		if v, ok := c17Gauge(reg, "alertmanager_config_last_reload_successful"); !ok {
			res.Add(pbt.V("harness", "step %d: gauge alertmanager_config_last_reload_successful missing", si))
		} else if (v == 1) != !wantErr {
			res.Add(pbt.V("reload-success-metric", "step %d: alertmanager_config_last_reload_successful=%v after a reload that should %s", si, v, map[bool]string{true: "fail", false: "succeed"}[wantErr]))
		}
		wantHash := 0.0
		if running != "" {
			wantHash = c17ConfigHash(runningContent)
		}
		if v, ok := c17Gauge(reg, "alertmanager_config_hash"); ok && v != wantHash {
			res.Add(pbt.V("config-hash-metric", "step %d: alertmanager_config_hash=%v, the configuration in force (%q) hashes to %v", si, v, running, wantHash).With("rejected_step", wantErr))
		}
		if len(res.Violations) > 0 {
			return res
		}
	}
	if loadFailures > 0 {
		res.Class("unloadable-file")
	}
	if subFailures > 0 {
		res.Class("subscriber-refuses")
	}
	if recovered > 0 {
		res.Class("valid-reload-after-rejection")
	}
	if len(subs) == 1 {
		res.Class("single-subscriber")
	}
	if len(subs) > sc.Subscribers {
		res.Class("late-subscriber")
	}
	res.NonTrivial = rejected > 0 && accepted > 0
	return res
}

func TestC17Reload(t *testing.T) {
	pbt.Run(t, pbt.Spec[c17ReloadScenario]{
		Property: "C17", Name: "C17Reload",
		Rule: "real config.Coordinator on a temp file with 1-4 recording subscribers (1 in a third of the cases, as in production; sometimes one more subscribes later); 1-8 steps, each writing a valid config (unique root receiver as marker), garbage, a structured config with one well-formedness breach, broken hostile YAML, or removing the file, plus a per-subscriber refusal plan; then Reload. Oracle: Reload errs iff the file does not load or an invoked subscriber refuses; an unloadable file reaches no subscriber; a refusal stops notification (later subscribers and the refusing one keep their configuration; with one subscriber the running configuration is unchanged); subscribers are invoked in subscription order, once, with one and the same non-nil config that matches the file; a valid reload afterwards reaches everybody; alertmanager_config_last_reload_successful and alertmanager_config_hash describe the configuration in force. Non-trivial: the history has both a rejected and an accepted reload.",
		Gen:  c17GenReload, Exec: c17ExecReload,
	})
}
