package checks

// C12QueryIsolation: "history is immutable": what a caller does with a query result is the caller's business. Changing
// a silence returned by Query / QueryOne changes nothing in the store, and an edit made by read-modify-write (query,
// change the result, hand it to Set: what an embedding program or a CLI does in process) behaves exactly like the
// same edit made with a freshly built silence: same id decision, same stored content, same retention.

import (
	"context"
	"fmt"
	"testing"
	"time"

	"github.com/prometheus/client_golang/prometheus"
	"google.golang.org/protobuf/proto"
	"google.golang.org/protobuf/types/known/timestamppb"
	"pgregory.net/rapid"

	"github.com/prometheus/alertmanager/eventrecorder"
	"github.com/prometheus/alertmanager/featurecontrol"
	"github.com/prometheus/alertmanager/matcher/compat"
	"github.com/prometheus/alertmanager/silence"
	pb "github.com/prometheus/alertmanager/silence/silencepb"

	"verif/harness/pbt"
)

type c12iOp struct {
	Kind   string `json:"kind"`    // scribble (change a query result and drop it) | rmw-end | rmw-comment | rmw-matchers | advance | gc
	Sil    int    `json:"sil"`     // which silence (mod count)
	One    bool   `json:"one"`     // QueryOne instead of Query
	EndOff int    `json:"end_off"` // rmw-end: new end = now + EndOff s
	Dt     int    `json:"dt"`
}

type c12iScenario struct {
	N   int      `json:"n"` // silences created first (ends 60 s / 1 h ahead alternately)
	Ret int      `json:"ret_s"`
	Ops []c12iOp `json:"ops"`
}

func genC12Isolation(t *rapid.T) c12iScenario {
	sc := c12iScenario{N: rapid.IntRange(1, 4).Draw(t, "n"), Ret: rapid.SampledFrom([]int{30, 600}).Draw(t, "ret")}
	n := rapid.IntRange(2, 14).Draw(t, "nops")
	for i := 0; i < n; i++ {
		op := c12iOp{Sil: rapid.IntRange(0, 3).Draw(t, "sil"), One: rapid.Bool().Draw(t, "one")}
		switch k := rapid.IntRange(0, 9).Draw(t, "kind"); {
		case k <= 2:
			op.Kind = "scribble"
		case k <= 4:
			op.Kind, op.EndOff = "rmw-end", rapid.SampledFrom([]int{90, 300, 4000}).Draw(t, "end")
		case k == 5:
			op.Kind = "rmw-comment"
		case k == 6:
			op.Kind = "rmw-matchers"
		case k <= 8:
			op.Kind, op.Dt = "advance", rapid.SampledFrom([]int{5, 40, 100, 700}).Draw(t, "dt")
		default:
			op.Kind = "gc"
		}
		sc.Ops = append(sc.Ops, op)
	}
	return sc
}

func execC12Isolation(sc c12iScenario) (res pbt.Result) {
	rmw := false
	bubble(func() {
		compat.InitFromFlags(nopLog, featurecontrol.NoopFlags{})
		ret := time.Duration(sc.Ret) * time.Second
		mkStore := func() *silence.Silences {
			s, err := silence.New(silence.Options{Retention: ret, Logger: nopLog, Metrics: prometheus.NewRegistry(), EventRecorder: eventrecorder.NopRecorder()})
			if err != nil {
				res.Fail("harness", "silence.New: %v", err)
			}
			return s
		}
		// two stores given the same history: A is edited by read-modify-write of its own query results, B with freshly
		// built silences carrying the same field values
		A, B := mkStore(), mkStore()
		if A == nil || B == nil {
			return
		}
		ctx := context.Background()
		var idsA, idsB []string
		t0 := time.Now()
		for i := 0; i < sc.N; i++ {
			end := t0.Add(time.Minute)
			if i%2 == 1 {
				end = t0.Add(time.Hour)
			}
			for j, st := range []*silence.Silences{A, B} {
				s := &pb.Silence{MatcherSets: []*pb.MatcherSet{{Matchers: []*pb.Matcher{{Type: pb.Matcher_EQUAL, Name: "a", Pattern: fmt.Sprint("v", i)}}}},
					StartsAt: timestamppb.New(t0), EndsAt: timestamppb.New(end), CreatedBy: "c12", Comment: "c0"}
				if err := st.Set(ctx, s); err != nil {
					res.Fail("harness", "Set: %v", err)
					return
				}
				if j == 0 {
					idsA = append(idsA, s.Id)
				} else {
					idsB = append(idsB, s.Id)
				}
			}
		}
		// content of a store with ids replaced by their creation rank
		view := func(st *silence.Silences, ids []string) []string {
			rank := map[string]int{}
			for i, id := range ids {
				rank[id] = i
			}
			sils, _, err := st.Query(ctx)
			if err != nil {
				res.Add(pbt.V("query-error", "Query: %v", err))
				return nil
			}
			out := make([]string, len(ids))
			for _, x := range sils {
				r, ok := rank[x.Id]
				if !ok {
					out = append(out, "unknown id "+x.Id)
					continue
				}
				out[r] = fmt.Sprintf("#%d %v end=%s comment=%q", r, x.MatcherSets, x.EndsAt.AsTime().Sub(t0), x.Comment)
			}
			return out
		}
		get := func(st *silence.Silences, id string, one bool) *pb.Silence {
			if one {
				x, err := st.QueryOne(ctx, silence.QIDs(id))
				if err != nil {
					return nil
				}
				return x
			}
			xs, _, err := st.Query(ctx, silence.QIDs(id))
			if err != nil || len(xs) != 1 {
				return nil
			}
			return xs[0]
		}
		for i, op := range sc.Ops {
			time.Sleep(time.Millisecond)
			now := time.Now()
			k := op.Sil % len(idsA)
			switch op.Kind {
			case "advance":
				time.Sleep(time.Duration(op.Dt) * time.Second)
			case "gc":
				A.GC()
				B.GC()
			case "scribble":
				before, _ := A.MarshalBinary()
				if x := get(A, idsA[k], op.One); x != nil {
					x.Comment = "scribbled"
					x.EndsAt = timestamppb.New(now.Add(-time.Hour))
					x.CreatedBy = "someone else"
					if len(x.MatcherSets) > 0 && len(x.MatcherSets[0].Matchers) > 0 {
						x.MatcherSets[0].Matchers[0].Pattern = "scribbled"
					}
				}
				after, _ := A.MarshalBinary()
				if !c11mSameRecords(before, after) {
					res.Add(pbt.V("query-result-aliases-store", "op %d: changing the fields of a silence returned by a query changed the stored state", i))
				}
			case "rmw-end", "rmw-comment", "rmw-matchers":
				x := get(A, idsA[k], op.One)
				y := get(B, idsB[k], op.One)
				if x == nil || y == nil {
					continue
				}
				rmw = true
				fresh := proto.Clone(y).(*pb.Silence)
				switch op.Kind {
				case "rmw-end":
					x.EndsAt = timestamppb.New(now.Add(time.Duration(op.EndOff) * time.Second))
					fresh.EndsAt = timestamppb.New(now.Add(time.Duration(op.EndOff) * time.Second))
				case "rmw-comment":
					x.Comment = fmt.Sprint("edited at op ", i)
					fresh.Comment = x.Comment
				default:
					x.MatcherSets[0].Matchers[0].Pattern = fmt.Sprint("other", i)
					fresh.MatcherSets[0].Matchers[0].Pattern = fmt.Sprint("other", i)
				}
				errA := A.Set(ctx, x)
				errB := B.Set(ctx, fresh)
				if (errA == nil) != (errB == nil) {
					res.Add(pbt.V("read-modify-write-differs", "op %d (%s): Set of a changed query result answered %v, the same edit with a freshly built silence %v", i, op.Kind, errA, errB))
					break
				}
				if errA == nil {
					keptA, keptB := x.Id == idsA[k], fresh.Id == idsB[k]
					if keptA != keptB {
						res.Add(pbt.V("read-modify-write-differs", "op %d (%s): the edit made by read-modify-write kept the id: %v, the same edit with a freshly built silence: %v", i, op.Kind, keptA, keptB))
					}
					if !keptA {
						idsA = append(idsA, x.Id)
					}
					if !keptB {
						idsB = append(idsB, fresh.Id)
					}
				}
			}
			va, vb := view(A, idsA), view(B, idsB)
			if fmt.Sprint(va) != fmt.Sprint(vb) {
				res.Add(pbt.V("read-modify-write-differs", "after op %d (%s) the store edited by read-modify-write holds %v, the store edited with freshly built silences %v", i, op.Kind, va, vb))
			}
			if len(res.Violations) > 0 {
				return
			}
		}
	})
	res.NonTrivial = rmw
	return res
}

func TestC12QueryIsolation(t *testing.T) {
	pbt.Run(t, pbt.Spec[c12iScenario]{
		Property: "C12", Name: "C12QueryIsolation",
		Rule: "two silence stores with the same 1-4 silences; 2-14 ops: scribble (change every field of a Query / QueryOne result and drop it: the stored state must not change), read-modify-write edits on store A (query, change end / comment / first matcher of the result, Set it) mirrored on store B with a freshly built silence carrying the same values, advances of 5-700 s across ends and retention (30 s / 10 min), GC on both. After every op both stores list the same silences (ids by creation rank, matchers, ends, comments), and each edit takes the same id decision on both. Non-trivial: at least one read-modify-write edit.",
		Gen:  genC12Isolation, Exec: execC12Isolation,
	})
}
