package checks

// C19ModeMix: "every silence update broadcast by an instance is merged by every instance that stays connected to it …
// and a joining instance obtains the complete current state", between instances that run in different matcher parser
// modes (--enable-feature=classic-mode / utf8-strict-mode / the default): what one instance could store, another
// receives and keeps, whatever its own mode says about the label names in the matchers (the modes restrict what the
// API and the configuration accept, not what the cluster replicates).

import (
	"context"
	"fmt"
	"testing"
	"time"

	"google.golang.org/protobuf/proto"
	"google.golang.org/protobuf/types/known/timestamppb"
	"pgregory.net/rapid"

	"github.com/prometheus/alertmanager/silence"
	pb "github.com/prometheus/alertmanager/silence/silencepb"

	"verif/harness/pbt"
)

type c19mmSil struct {
	Names  []string `json:"names"`  // one matcher per name
	Regex  bool     `json:"regex"`  // the first matcher is a regular expression
	Expire bool     `json:"expire"` // expired on the author before the delivery (a second update of the same id)
}

type c19mmScenario struct {
	AuthorMode   string     `json:"author_mode"`   // fallback | utf8
	ReceiverMode string     `json:"receiver_mode"` // classic | fallback | utf8
	Sils         []c19mmSil `json:"sils"`
	Via          string     `json:"via"` // gossip (every broadcast payload) | full (the author's full state) | both
}

var c19mmNames = []string{"a", "job", "service.name", "k8s-pod", "世", "with space", "0lead"}

func genC19ModeMix(t *rapid.T) c19mmScenario {
	sc := c19mmScenario{AuthorMode: rapid.SampledFrom([]string{"fallback", "utf8"}).Draw(t, "authorMode"), ReceiverMode: rapid.SampledFrom([]string{"classic", "classic", "fallback", "utf8"}).Draw(t, "receiverMode"),
		Via: rapid.SampledFrom([]string{"gossip", "full", "both"}).Draw(t, "via")}
	n := rapid.IntRange(1, 5).Draw(t, "sils")
	for i := 0; i < n; i++ {
		s := c19mmSil{Regex: rapid.Bool().Draw(t, "regex"), Expire: rapid.IntRange(0, 3).Draw(t, "expire") == 0}
		k := rapid.IntRange(1, 2).Draw(t, "names")
		for j := 0; j < k; j++ {
			s.Names = append(s.Names, rapid.SampledFrom(c19mmNames).Draw(t, "name"))
		}
		sc.Sils = append(sc.Sils, s)
	}
	return sc
}

func execC19ModeMix(sc c19mmScenario) (res pbt.Result) {
	defer c13SetMode("classic") // the process default
	ctx := context.Background()
	if err := c13SetMode(sc.AuthorMode); err != nil {
		res.Fail("harness", "mode: %v", err)
		return res
	}
	author, err := c12raceNew(nil)
	if err != nil {
		res.Fail("harness", "silence.New: %v", err)
		return res
	}
	var payloads [][]byte
	author.SetBroadcast(func(b []byte) { payloads = append(payloads, append([]byte(nil), b...)) })
	now := time.Now()
	var ids []string
	utf8Only := false
	for i, s := range sc.Sils {
		sil := &pb.Silence{StartsAt: timestamppb.New(now.Add(-time.Minute)), EndsAt: timestamppb.New(now.Add(time.Hour)), CreatedBy: "c19", Comment: fmt.Sprint("s", i)}
		set := &pb.MatcherSet{}
		for j, n := range s.Names {
			m := &pb.Matcher{Type: pb.Matcher_EQUAL, Name: n, Pattern: fmt.Sprint("v", i)}
			if j == 0 && s.Regex {
				m.Type, m.Pattern = pb.Matcher_REGEXP, fmt.Sprintf("v%d|w", i)
			}
			set.Matchers = append(set.Matchers, m)
			if n != "a" && n != "job" {
				utf8Only = true
			}
		}
		sil.MatcherSets = []*pb.MatcherSet{set}
		if err := author.Set(ctx, sil); err != nil {
			res.Fail("harness", "the author (mode %s) refuses a silence on %v: %v", sc.AuthorMode, s.Names, err)
			return res
		}
		ids = append(ids, sil.Id)
		if s.Expire {
			if err := author.Expire(ctx, sil.Id); err != nil {
				res.Fail("harness", "Expire: %v", err)
				return res
			}
		}
	}
	full, err := author.MarshalBinary()
	if err != nil {
		res.Fail("harness", "MarshalBinary: %v", err)
		return res
	}
	if err := c13SetMode(sc.ReceiverMode); err != nil {
		res.Fail("harness", "mode: %v", err)
		return res
	}
	recv, err := c12raceNew(nil)
	if err != nil {
		res.Fail("harness", "silence.New: %v", err)
		return res
	}
	if sc.Via != "full" {
		for _, p := range payloads {
			if err := recv.Merge(p); err != nil {
				res.Add(pbt.V("merge-refused", "an instance in %s mode refuses a gossip payload of an instance in %s mode: %v", sc.ReceiverMode, sc.AuthorMode, err))
			}
		}
	}
	if sc.Via != "gossip" {
		if err := recv.Merge(full); err != nil {
			res.Add(pbt.V("merge-refused", "an instance in %s mode refuses the full state of an instance in %s mode: %v", sc.ReceiverMode, sc.AuthorMode, err))
		}
	}
	for i, id := range ids {
		want, err := author.QueryOne(ctx, silence.QIDs(id))
		if err != nil {
			res.Fail("harness", "author lost %s: %v", id, err)
			return res
		}
		got, err := recv.QueryOne(ctx, silence.QIDs(id))
		if err != nil {
			res.Add(pbt.V("update-not-merged", "silence %d (matchers on %v%s) authored in %s mode and delivered by %s is not held by an instance in %s mode: %v",
				i, sc.Sils[i].Names, map[bool]string{true: ", expired", false: ""}[sc.Sils[i].Expire], sc.AuthorMode, sc.Via, sc.ReceiverMode, err).With("receiver_mode", sc.ReceiverMode))
			continue
		}
		if !proto.Equal(got, want) {
			res.Add(pbt.V("update-merged-differently", "silence %d: the receiver (%s mode) holds %v, the author (%s mode) %v", i, sc.ReceiverMode, got, sc.AuthorMode, want))
		}
	}
	res.NonTrivial = utf8Only && sc.ReceiverMode == "classic"
	return res
}

func TestC19ModeMix(t *testing.T) {
	pbt.Run(t, pbt.Spec[c19mmScenario]{
		Property: "C19", Name: "C19ModeMix",
		Rule: "two real silence stores: the author runs in the default or the UTF-8 strict matcher mode and stores 1-5 silences whose matchers name labels from {a, job, service.name, k8s-pod, 世, 'with space', 0lead} (one in four is expired afterwards: a second update of its id); the receiver runs in classic, default or UTF-8 strict mode and is handed every broadcast payload, the author's full state, or both, through Merge. It holds every silence, proto-equal to the author's current version. Non-trivial: the receiver is in classic mode and a matcher names a label classic mode would not accept from a user.",
		Gen:  genC19ModeMix, Exec: execC19ModeMix,
	})
}
