package checks

import (
	"context"
	"fmt"
	"sort"
	"sync"
	"testing"
	"time"

	"github.com/prometheus/client_golang/prometheus"
	"google.golang.org/protobuf/types/known/timestamppb"
	"pgregory.net/rapid"

	"github.com/prometheus/alertmanager/eventrecorder"
	"github.com/prometheus/alertmanager/featurecontrol"
	"github.com/prometheus/alertmanager/marker"
	"github.com/prometheus/alertmanager/matcher/compat"
	"github.com/prometheus/alertmanager/silence"
	pb "github.com/prometheus/alertmanager/silence/silencepb"

	"verif/harness/pbt"
	"verif/harness/ref"
)

// C02Concurrent: writers (create, in-place edit, expire, replicated merge, GC) and readers (Silencer.Mutes over the
// whole label universe) run concurrently on the real Go scheduler (real time, no bubble). While they run nothing is
// judged; once all writers are done the verdicts must equal a direct evaluation of the stored silences. Built with
// -race in the thorough tier: a reported data race is a violation ("under concurrent queries and updates").

type c02cOp struct {
	Kind string          `json:"kind"` // new | extend | expire | merge | gc
	Sil  int             `json:"sil,omitempty"`
	Sets [][]ref.Matcher `json:"sets,omitempty"`
}

type c02cScenario struct {
	Writers [][]c02cOp `json:"writers"` // one op list per writer goroutine
	Readers int        `json:"readers"`
}

func genC02C(t *rapid.T) c02cScenario {
	sc := c02cScenario{Readers: rapid.IntRange(1, 3).Draw(t, "readers")}
	nw := rapid.IntRange(2, 4).Draw(t, "writers")
	for w := 0; w < nw; w++ {
		var ops []c02cOp
		n := rapid.IntRange(3, 12).Draw(t, "nops")
		for i := 0; i < n; i++ {
			switch rapid.IntRange(0, 7).Draw(t, "op") {
			case 0, 1, 2:
				ops = append(ops, c02cOp{Kind: "new", Sets: genC02Sets(t)})
			case 3:
				ops = append(ops, c02cOp{Kind: "extend", Sil: rapid.IntRange(0, 20).Draw(t, "sil")})
			case 4, 5:
				ops = append(ops, c02cOp{Kind: "expire", Sil: rapid.IntRange(0, 20).Draw(t, "sil")})
			case 6:
				ops = append(ops, c02cOp{Kind: "merge", Sets: genC02Sets(t)})
			default:
				ops = append(ops, c02cOp{Kind: "gc"})
			}
		}
		sc.Writers = append(sc.Writers, ops)
	}
	return sc
}

func execC02C(sc c02cScenario) (res pbt.Result) {
	compat.InitFromFlags(nopLog, featurecontrol.NoopFlags{})
	reByText := map[string]*ref.Re{}
	for _, w := range sc.Writers {
		for _, op := range w {
			for _, set := range op.Sets {
				for _, m := range set {
					if m.Re != nil {
						reByText[m.Pattern()] = m.Re
					}
				}
			}
		}
	}
	ctx := context.Background()
	newSil := func() *silence.Silences {
		s, err := silence.New(silence.Options{Retention: time.Hour, Logger: nopLog, Metrics: prometheus.NewRegistry(), EventRecorder: eventrecorder.NopRecorder()})
		if err != nil {
			res.Fail("harness", "%v", err)
		}
		return s
	}
	A, B := newSil(), newSil()
	silencer := silence.NewSilencer(A, nopLog, eventrecorder.NopRecorder())
	universe := c02Universe()
	var idMtx, bMtx sync.Mutex
	var ids []string
	pick := func(k int) string {
		idMtx.Lock()
		defer idMtx.Unlock()
		if len(ids) == 0 {
			return ""
		}
		return ids[k%len(ids)]
	}
	stop := make(chan struct{})
	var rwg, wwg sync.WaitGroup
	for r := 0; r < sc.Readers; r++ {
		rwg.Add(1)
		go func(r int) {
			defer rwg.Done()
			for i := 0; ; i++ {
				select {
				case <-stop:
					return
				default:
				}
				ls := universe[(i*7+r)%len(universe)]
				m := marker.NewAlertMarker()
				silencer.Mutes(marker.WithContext(ctx, m), toLabelSet(ls))
			}
		}(r)
	}
	for _, ops := range sc.Writers {
		wwg.Add(1)
		go func(ops []c02cOp) {
			defer wwg.Done()
			for _, op := range ops {
				now := time.Now()
				switch op.Kind {
				case "new":
					s := &pb.Silence{MatcherSets: c02ToPB(op.Sets), StartsAt: timestamppb.New(now), EndsAt: timestamppb.New(now.Add(2 * time.Hour)), CreatedBy: "c", Comment: "c"}
					if err := A.Set(ctx, s); err == nil {
						idMtx.Lock()
						ids = append(ids, s.Id)
						idMtx.Unlock()
					}
				case "extend":
					if id := pick(op.Sil); id != "" {
						if cur, err := A.QueryOne(ctx, silence.QIDs(id)); err == nil && cur.EndsAt.AsTime().After(now) {
							cur.EndsAt = timestamppb.New(now.Add(3 * time.Hour))
							_ = A.Set(ctx, cur)
						}
					}
				case "expire":
					if id := pick(op.Sil); id != "" {
						_ = A.Expire(ctx, id)
					}
				case "merge":
					// a silence authored on the peer arrives as a replicated update
					s := &pb.Silence{MatcherSets: c02ToPB(op.Sets), StartsAt: timestamppb.New(now), EndsAt: timestamppb.New(now.Add(2 * time.Hour)), CreatedBy: "b", Comment: "b"}
					// the peer is a tool of the harness: one writer at a time uses it
					bMtx.Lock()
					var blob []byte
					B.SetBroadcast(func(b []byte) { blob = append([]byte(nil), b...) })
					err := B.Set(ctx, s)
					bMtx.Unlock()
					if err == nil && blob != nil {
						_ = A.Merge(blob)
					}
				case "gc":
					_, _ = A.GC()
				}
			}
		}(ops)
	}
	// B is only touched by "merge" ops, which each writer runs sequentially but several writers may run at once
	wwg.Wait()
	close(stop)
	rwg.Wait()

	all, _, err := A.Query(ctx)
	if err != nil {
		res.Add(pbt.V("query-error", "Query: %v", err))
		return res
	}
	now := time.Now()
	muted := 0
	for _, ls := range universe {
		var want []string
		for _, s := range all {
			if now.Before(s.StartsAt.AsTime()) || now.After(s.EndsAt.AsTime()) {
				continue
			}
			if c02Matches(s, ls, reByText, &res) {
				want = append(want, s.Id)
			}
		}
		sort.Strings(want)
		m := marker.NewAlertMarker()
		got := silencer.Mutes(marker.WithContext(ctx, m), toLabelSet(ls))
		by := append([]string(nil), m.Status(toLabelSet(ls).Fingerprint()).SilencedBy...)
		sort.Strings(by)
		if got != (len(want) > 0) || fmt.Sprint(by) != fmt.Sprint(want) {
			res.Add(pbt.V("mutes-differs-from-stored-silences", "after concurrent writers and readers finished: Mutes(%v)=%v by %v, direct evaluation of the %d stored silences says %v", ls, got, by, len(all), want))
		}
		if got {
			muted++
		}
	}
	res.NonTrivial = muted > 0 && len(all) >= 2
	res.Class(fmt.Sprintf("writers=%d", len(sc.Writers)))
	return res
}

func TestC02Concurrent(t *testing.T) {
	pbt.Run(t, pbt.Spec[c02cScenario]{
		Property: "C02", Name: "C02Concurrent",
		Rule: "2-4 writer goroutines (create, in-place extend, expire, merge of a peer-authored silence, GC; 3-12 ops each) and 1-3 reader goroutines calling Silencer.Mutes over the 64-label-set universe run concurrently on the real scheduler; at quiescence every verdict and SilencedBy set must equal a direct evaluation of Query(). In the thorough tier the binary is built with -race and a reported data race is a violation. Non-trivial: >=2 silences stored and some label set muted at the end.",
		Gen:  genC02C, Exec: execC02C,
	})
}
