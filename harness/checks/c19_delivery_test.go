package checks

// C19 — gossip transport delivers every state update to every live peer.
//
// Delivery sub-check (engine E6): 2-4 real cluster.Peer instances on loopback
// in one process, wired exactly like app.setup wires them, real time.
//
// The gossip-delivery phase runs with the periodic push/pull effectively
// disabled (24 h) so that anti-entropy cannot mask a broken gossip path or a
// broken reliable (oversized) send path; the join phase tests the full-state
// exchange that memberlist performs on Join, after the harness has emptied
// every gossip queue so that left-over gossip cannot mask a broken exchange.

import (
	"bytes"
	"context"
	"flag"
	"fmt"
	"os"
	"reflect"
	"sort"
	"strconv"
	"strings"
	"sync"
	"testing"
	"time"
	"unsafe"

	"github.com/hashicorp/memberlist"
	"github.com/prometheus/client_golang/prometheus"
	"google.golang.org/protobuf/encoding/protodelim"
	"google.golang.org/protobuf/proto"
	"google.golang.org/protobuf/types/known/timestamppb"
	"pgregory.net/rapid"

	"github.com/prometheus/alertmanager/cluster"
	"github.com/prometheus/alertmanager/cluster/clusterpb"
	"github.com/prometheus/alertmanager/nflog"
	"github.com/prometheus/alertmanager/nflog/nflogpb"
	"github.com/prometheus/alertmanager/silence"
	"github.com/prometheus/alertmanager/silence/silencepb"

	"verif/harness/pbt"
)

// c19GossipLimit is the documented threshold: an encoded clusterpb.Part larger
// than half the maximum gossip packet (1400/2 bytes) is "oversized" and is sent
// to every peer over the reliable channel instead of being gossiped.
const c19GossipLimit = 700

// ------------------------------------------------------------------ scenario

type c19Update struct {
	Author int    `json:"author"` // index into the list of live nodes at that step (mod its length)
	Kind   string `json:"kind"`   // sil | nfl | extend | expire | relog
	Size   int    `json:"size"`   // sil/extend: comment bytes; nfl/relog: number of firing-alert hashes
	Ref    int    `json:"ref"`    // extend/expire/relog: index into the items that existed before this batch (mod their number)
}

type c19Step struct {
	Op       string      `json:"op"`                 // join | update | leave | restart
	Slot     int         `json:"slot,omitempty"`     // leave: index into live nodes; restart: index into departed nodes (mod length)
	Known    []int       `json:"known,omitempty"`    // join/restart: indices into live nodes (mod length) used as --cluster.peer; empty = first node
	Snapshot bool        `json:"snapshot,omitempty"` // restart: the new instance starts from the snapshot of the departed one
	Updates  []c19Update `json:"updates,omitempty"`
}

type c19DelScenario struct {
	GossipMs int       `json:"gossip_ms"`
	Steps    []c19Step `json:"steps"`
}

func c19GenSize(t *rapid.T, kind string) int {
	// swept across the 700-byte limit: small, around the limit, large, huge
	cls := rapid.IntRange(0, 9).Draw(t, "sizeClass")
	if kind == "sil" || kind == "extend" {
		switch {
		case cls <= 2:
			return rapid.IntRange(0, 200).Draw(t, "small")
		case cls <= 5:
			return rapid.IntRange(440, 640).Draw(t, "edge") // base encoding is ~130-170 bytes
		case cls <= 8:
			return rapid.IntRange(700, 6000).Draw(t, "large")
		default:
			return rapid.IntRange(20000, 150000).Draw(t, "huge")
		}
	}
	switch { // 9-10 bytes per hash
	case cls <= 2:
		return rapid.IntRange(0, 8).Draw(t, "small")
	case cls <= 5:
		return rapid.IntRange(55, 72).Draw(t, "edge")
	case cls <= 8:
		return rapid.IntRange(80, 600).Draw(t, "large")
	default:
		return rapid.IntRange(2000, 15000).Draw(t, "huge")
	}
}

func c19GenBatch(t *rapid.T, force bool) c19Step {
	n := rapid.IntRange(2, 6).Draw(t, "nUpdates")
	st := c19Step{Op: "update"}
	for i := 0; i < n; i++ {
		k := rapid.SampledFrom([]string{"sil", "sil", "sil", "nfl", "nfl", "extend", "expire", "relog"}).Draw(t, "kind")
		u := c19Update{Author: rapid.IntRange(0, 11).Draw(t, "author"), Kind: k, Ref: rapid.IntRange(0, 11).Draw(t, "ref")}
		if k != "expire" {
			u.Size = c19GenSize(t, k)
		}
		st.Updates = append(st.Updates, u)
	}
	if force {
		// by construction: one normal and one oversized update of each state in the batch
		a := rapid.IntRange(0, 11).Draw(t, "fa")
		st.Updates = append(st.Updates,
			c19Update{Author: a, Kind: "sil", Size: rapid.IntRange(0, 100).Draw(t, "fs")},
			c19Update{Author: a + 1, Kind: "sil", Size: rapid.IntRange(800, 4000).Draw(t, "fl")},
			c19Update{Author: a + 2, Kind: "nfl", Size: rapid.IntRange(1, 6).Draw(t, "fns")},
			c19Update{Author: a + 3, Kind: "nfl", Size: rapid.IntRange(90, 400).Draw(t, "fnl")})
	}
	return st
}

func c19GenKnown(t *rapid.T, live int) []int {
	if live == 0 {
		return nil
	}
	// non-empty subset of the live nodes, in generated order
	perm := rapid.Permutation(c19Iota(live)).Draw(t, "knownOrder")
	return perm[:rapid.IntRange(1, live).Draw(t, "nKnown")]
}

func c19Iota(n int) []int {
	out := make([]int, n)
	for i := range out {
		out[i] = i
	}
	return out
}

func genC19Delivery(t *rapid.T) c19DelScenario {
	sc := c19DelScenario{GossipMs: rapid.SampledFrom([]int{50, 70, 100}).Draw(t, "gossipMs")}
	late := rapid.IntRange(0, 9).Draw(t, "late") < 8
	rejoin := rapid.IntRange(0, 9).Draw(t, "rejoin") < 7
	maxInit := 4
	if late {
		maxInit = 3
	}
	n0 := rapid.IntRange(1, maxInit).Draw(t, "n0")
	if !late && n0 < 2 {
		n0 = 2
	}
	live := 0
	for i := 0; i < n0; i++ {
		sc.Steps = append(sc.Steps, c19Step{Op: "join", Known: c19GenKnown(t, live)})
		live++
	}
	sc.Steps = append(sc.Steps, c19GenBatch(t, true))
	if late {
		sc.Steps = append(sc.Steps, c19Step{Op: "join", Known: c19GenKnown(t, live)})
		live++
		sc.Steps = append(sc.Steps, c19GenBatch(t, n0 < 2))
	}
	if rejoin {
		sc.Steps = append(sc.Steps, c19Step{Op: "leave", Slot: rapid.IntRange(0, live-1).Draw(t, "leaver")})
		live--
		sc.Steps = append(sc.Steps, c19GenBatch(t, false))
		sc.Steps = append(sc.Steps, c19Step{Op: "restart", Slot: 0, Known: c19GenKnown(t, live), Snapshot: rapid.Bool().Draw(t, "fromSnapshot")})
		live++
		sc.Steps = append(sc.Steps, c19GenBatch(t, false))
	}
	return sc
}

// ----------------------------------------------------------------- one node

type c19Tap struct {
	mtx      sync.Mutex
	payloads map[string][][]byte // key -> payloads handed to Channel.Broadcast
}

func (tp *c19Tap) add(key string, b []byte) {
	tp.mtx.Lock()
	tp.payloads[key] = append(tp.payloads[key], append([]byte(nil), b...))
	tp.mtx.Unlock()
}

func (tp *c19Tap) snapshot(key string) [][]byte {
	tp.mtx.Lock()
	defer tp.mtx.Unlock()
	return append([][]byte(nil), tp.payloads[key]...)
}

type c19Node struct {
	name         string
	reg          *prometheus.Registry
	peer         *cluster.Peer
	sil          *silence.Silences
	nfl          *nflog.Log
	tap          *c19Tap
	settleCancel context.CancelFunc
	addr         string
	// oversized payloads handed to the channel of this node, weighted by the
	// number of peers at that time: lower bound for ..._sent_total
	minSent map[string]int
	counted map[string]int // payloads of tap already accounted for
}

type c19EnvError struct{ msg string }

func (e c19EnvError) Error() string { return e.msg }

// c19NewNode mirrors app.setup: Create, nflog + AddState("nfl") + SetBroadcast,
// silences + AddState("sil") + SetBroadcast, Join, Settle in the background.
func c19NewNode(name, label string, known []string, gossip time.Duration, silSnap, nflSnap []byte) (*c19Node, error) {
	n := &c19Node{name: name, reg: prometheus.NewRegistry(), tap: &c19Tap{payloads: map[string][][]byte{}},
		minSent: map[string]int{}, counted: map[string]int{}}
	peer, err := cluster.Create(
		nopLog, n.reg,
		"127.0.0.1:0", "", known, true,
		24*time.Hour, // push/pull: only the exchange on Join
		gossip,
		cluster.DefaultTCPTimeout,
		cluster.DefaultResolvePeersTimeout,
		2*time.Second, // probe timeout / interval: relaxed, failure detection is not under test
		3*time.Second,
		nil, false, label, name,
	)
	if err != nil {
		return nil, c19EnvError{"cluster.Create: " + err.Error()}
	}
	n.peer = peer
	nopts := nflog.Options{Retention: 120 * time.Hour, Logger: nopLog, Metrics: n.reg}
	if nflSnap != nil {
		nopts.SnapshotReader = bytes.NewReader(nflSnap)
	}
	n.nfl, err = nflog.New(nopts)
	if err != nil {
		return n, fmt.Errorf("nflog.New: %w", err)
	}
	cn := peer.AddState("nfl", n.nfl, n.reg)
	n.nfl.SetBroadcast(func(b []byte) { n.tap.add("nfl", b); cn.Broadcast(b) })

	sopts := silence.Options{Retention: 120 * time.Hour, Logger: nopLog, Metrics: n.reg}
	if silSnap != nil {
		sopts.SnapshotReader = bytes.NewReader(silSnap)
	}
	n.sil, err = silence.New(sopts)
	if err != nil {
		return n, fmt.Errorf("silence.New: %w", err)
	}
	cs := peer.AddState("sil", n.sil, n.reg)
	n.sil.SetBroadcast(func(b []byte) { n.tap.add("sil", b); cs.Broadcast(b) })

	n.addr = peer.Self().Address()
	if err := peer.Join(cluster.DefaultReconnectInterval, cluster.DefaultReconnectTimeout); err != nil {
		return n, c19EnvError{"peer.Join: " + err.Error()}
	}
	ctx, cancel := context.WithTimeout(context.Background(), time.Minute)
	n.settleCancel = cancel
	go peer.Settle(ctx, gossip*10)
	return n, nil
}

// c19Shutdown releases the sockets and goroutines of the memberlist instance.
// Peer.Leave (all production does before the process exits) keeps them; with
// many cases per process the harness closes them through the unexported field.
func c19Shutdown(p *cluster.Peer) {
	defer func() { recover() }()
	f := reflect.ValueOf(p).Elem().FieldByName("mlist")
	if !f.IsValid() || f.IsNil() {
		return
	}
	ml := *(**memberlist.Memberlist)(unsafe.Pointer(f.UnsafeAddr()))
	ml.Shutdown()
}

func (n *c19Node) stop(leave bool) error {
	if n == nil || n.peer == nil {
		return nil
	}
	if n.settleCancel != nil {
		n.settleCancel()
	}
	var err error
	if leave {
		err = n.peer.Leave(10 * time.Second)
	}
	return err
}

func (n *c19Node) counter(name, key string) float64 {
	mfs, err := n.reg.Gather()
	if err != nil {
		return -1
	}
	for _, mf := range mfs {
		if mf.GetName() != name {
			continue
		}
		for _, m := range mf.GetMetric() {
			ok := key == ""
			for _, l := range m.GetLabel() {
				if l.GetName() == "key" && l.GetValue() == key {
					ok = true
				}
			}
			if ok {
				if m.Counter != nil {
					return m.Counter.GetValue()
				}
				if m.Gauge != nil {
					return m.Gauge.GetValue()
				}
			}
		}
	}
	return -1
}

// -------------------------------------------------------------- the cluster

type c19SilItem struct {
	id   string
	want *silencepb.Silence // the author's stored version after the latest update
	size int                // encoded Part of the latest update
}

type c19NflItem struct {
	recv *nflogpb.Receiver
	gkey string
	want *nflogpb.Entry
	size int
}

type c19Cluster struct {
	sc       c19DelScenario
	label    string
	deadline time.Duration
	all      []*c19Node
	live     []*c19Node
	departed []*c19Node
	sils     []*c19SilItem
	nfls     []*c19NflItem

	overNormal [2]int // updates verified on >=2 members: [normal, oversized]
	classes    map[string]bool
}

type c19Outcome struct {
	status string // ok | miss | env
	v      pbt.Violation
	env    string
}

func c19Miss(v pbt.Violation) c19Outcome { return c19Outcome{status: "miss", v: v} }
func c19Env(f string, a ...any) c19Outcome {
	return c19Outcome{status: "env", env: fmt.Sprintf(f, a...)}
}

func c19Comment(k, size int) string {
	var sb strings.Builder
	for i := 0; sb.Len() < size; i++ {
		fmt.Fprintf(&sb, "c19 item %d chunk %d|", k, i)
	}
	return sb.String()[:size]
}

func c19Hashes(k, n int) []uint64 {
	out := make([]uint64, n)
	for i := range out {
		out[i] = 0x8000000000000000 | uint64(k+1)<<32 | uint64(i)
	}
	return out
}

func c19PartSize(key string, payload []byte) int {
	return proto.Size(&clusterpb.Part{Key: key, Data: payload})
}

func (c *c19Cluster) poll(f func() string) string {
	end := time.Now().Add(c.deadline)
	for {
		why := f()
		if why == "" {
			return ""
		}
		if time.Now().After(end) {
			return why
		}
		time.Sleep(15 * time.Millisecond)
	}
}

func (c *c19Cluster) waitMembership() string {
	return c.poll(func() string {
		for _, n := range c.live {
			if got := n.peer.ClusterSize(); got != len(c.live) {
				return fmt.Sprintf("node %s sees %d members, want %d", n.name, got, len(c.live))
			}
		}
		return ""
	})
}

// holds reports why node n does not hold every item ("" if it does).
func (c *c19Cluster) holds(n *c19Node) string {
	for _, it := range c.sils {
		got, _, err := n.sil.Query(context.Background(), silence.QIDs(it.id))
		if err != nil {
			return fmt.Sprintf("node %s: query silence %s: %v", n.name, it.id, err)
		}
		if len(got) != 1 {
			return fmt.Sprintf("node %s: silence %s (part %d bytes) absent", n.name, it.id, it.size)
		}
		if !proto.Equal(got[0], it.want) {
			return fmt.Sprintf("node %s: silence %s (part %d bytes) differs from the author's version (updated_at got %v want %v)", n.name, it.id, it.size, got[0].UpdatedAt.AsTime(), it.want.UpdatedAt.AsTime())
		}
	}
	for _, it := range c.nfls {
		got, err := n.nfl.Query(nflog.QReceiver(it.recv), nflog.QGroupKey(it.gkey))
		if err != nil || len(got) != 1 {
			return fmt.Sprintf("node %s: log entry %s (part %d bytes) absent: %v", n.name, it.gkey, it.size, err)
		}
		if !proto.Equal(got[0], it.want) {
			return fmt.Sprintf("node %s: log entry %s (part %d bytes) differs from the author's version (timestamp got %v want %v, %d/%d firing)", n.name, it.gkey, it.size, got[0].Timestamp.AsTime(), it.want.Timestamp.AsTime(), len(got[0].FiringAlerts), len(it.want.FiringAlerts))
		}
	}
	return ""
}

// account updates the lower bound of oversized sends of every live node from
// what its states handed to the channel since the last call.
func (c *c19Cluster) account() {
	for _, n := range c.live {
		for _, key := range []string{"sil", "nfl"} {
			ps := n.tap.snapshot(key)
			for _, p := range ps[n.counted[key]:] {
				if c19PartSize(key, p) > c19GossipLimit {
					n.minSent[key] += len(c.live) - 1
				}
			}
			n.counted[key] = len(ps)
		}
	}
}

func (c *c19Cluster) counters() string {
	for _, n := range c.live {
		for _, key := range []string{"sil", "nfl"} {
			sent := n.counter("alertmanager_oversized_gossip_message_sent_total", key)
			dropped := n.counter("alertmanager_oversized_gossip_message_dropped_total", key)
			if dropped != 0 {
				return fmt.Sprintf("node %s key %s: oversized_gossip_message_dropped_total=%v with far fewer than 200 messages outstanding", n.name, key, dropped)
			}
			if int(sent) < n.minSent[key] {
				return fmt.Sprintf("node %s key %s: oversized_gossip_message_sent_total=%v, want >= %d (oversized payloads x peers)", n.name, key, sent, n.minSent[key])
			}
			if n.minSent[key] == 0 && sent > 0 {
				over := false
				for _, p := range n.tap.snapshot(key) {
					over = over || c19PartSize(key, p) > c19GossipLimit
				}
				if !over {
					return fmt.Sprintf("node %s key %s: oversized_gossip_message_sent_total=%v although every payload of this node fits the gossip limit", n.name, key, sent)
				}
			}
		}
	}
	return ""
}

// peersLeft sums alertmanager_cluster_peers_left_total over the live nodes.
func (c *c19Cluster) peersLeft() float64 {
	var sum float64
	for _, n := range c.live {
		sum += n.counter("alertmanager_cluster_peers_left_total", "")
	}
	return sum
}

func (c *c19Cluster) addNode(known []int, silSnap, nflSnap []byte) (*c19Node, c19Outcome) {
	var addrs []string
	for _, k := range known {
		if len(c.live) > 0 {
			addrs = append(addrs, c.live[k%len(c.live)].addr)
		}
	}
	n, err := c19NewNode(fmt.Sprintf("n%d", len(c.all)), c.label, addrs, time.Duration(c.sc.GossipMs)*time.Millisecond, silSnap, nflSnap)
	if n != nil && n.peer != nil {
		c.all = append(c.all, n)
	}
	if err != nil {
		return nil, c19Env("%v", err)
	}
	c.live = append(c.live, n)
	if why := c.waitMembership(); why != "" {
		return nil, c19Env("membership did not converge: %s", why)
	}
	// payloads re-broadcast while the full state was merged on join went to
	// whatever peers were known at that instant: no lower bound from them
	for _, l := range c.live {
		for _, key := range []string{"sil", "nfl"} {
			l.counted[key] = len(l.tap.snapshot(key))
		}
	}
	return n, c19Outcome{status: "ok"}
}

// drainGossip empties every gossip queue (everything queued has already been
// verified on every live node), so that only the full-state exchange can bring
// state to a node that joins next.
func (c *c19Cluster) drainGossip() {
	for _, n := range c.live {
		d := n.peer.VerifDelegate()
		for i := 0; i < 64 && n.counter("alertmanager_cluster_messages_queued", "") > 0; i++ {
			d.GetBroadcasts(0, 1<<30)
		}
	}
}

func (c *c19Cluster) checkJoiner(n *c19Node, what string) c19Outcome {
	if len(c.sils)+len(c.nfls) == 0 {
		return c19Outcome{status: "ok"}
	}
	if why := c.poll(func() string { return c.holds(n) }); why != "" {
		return c19Miss(pbt.V("joiner-incomplete", "%s %s does not hold the complete state after its join: %s", what, n.name, why).With("phase", what))
	}
	return c19Outcome{status: "ok"}
}

func (c *c19Cluster) update(st c19Step) c19Outcome {
	if len(c.live) == 0 {
		return c19Outcome{status: "ok"}
	}
	nSil, nNfl := len(c.sils), len(c.nfls) // items that existed (and were verified everywhere) before the batch
	leftBefore := c.peersLeft()
	touchedSil, touchedNfl := map[int]bool{}, map[int]bool{}
	type authored struct {
		key  string
		idx  int
		node *c19Node
	}
	var batch []authored
	ctx := context.Background()
	for _, u := range st.Updates {
		a := c.live[u.Author%len(c.live)]
		kind := u.Kind
		ref := -1
		switch kind {
		case "extend", "expire":
			if nSil > 0 && !touchedSil[u.Ref%nSil] {
				ref = u.Ref % nSil
				touchedSil[ref] = true
			} else {
				kind = "sil"
			}
		case "relog":
			if nNfl > 0 && !touchedNfl[u.Ref%nNfl] {
				ref = u.Ref % nNfl
				touchedNfl[ref] = true
			} else {
				kind = "nfl"
			}
		}
		switch kind {
		case "sil", "extend", "expire":
			var id string
			switch kind {
			case "sil":
				k := len(c.sils)
				now := time.Now()
				s := &silencepb.Silence{
					MatcherSets: []*silencepb.MatcherSet{{Matchers: []*silencepb.Matcher{{Type: silencepb.Matcher_EQUAL, Name: "alertname", Pattern: fmt.Sprintf("c19-%d", k)}}}},
					StartsAt:    timestamppb.New(now), EndsAt: timestamppb.New(now.Add(2 * time.Hour)),
					CreatedBy: "c19", Comment: c19Comment(k, u.Size),
				}
				if err := a.sil.Set(ctx, s); err != nil {
					return c19Env("Set on %s: %v", a.name, err)
				}
				id = s.Id
				c.sils = append(c.sils, &c19SilItem{id: id})
				ref = len(c.sils) - 1
			case "extend":
				cur, _, err := a.sil.Query(ctx, silence.QIDs(c.sils[ref].id))
				if err != nil || len(cur) != 1 {
					return c19Miss(pbt.V("lost-update", "node %s no longer holds silence %s that was verified on it: %v", a.name, c.sils[ref].id, err))
				}
				s := cur[0]
				s.EndsAt = timestamppb.New(s.EndsAt.AsTime().Add(time.Hour))
				s.Comment = c19Comment(ref, u.Size)
				if err := a.sil.Set(ctx, s); err != nil {
					return c19Env("Set(update) on %s: %v", a.name, err)
				}
				id = s.Id
				if id != c.sils[ref].id {
					// the silence had expired: Set created a new one
					c.sils = append(c.sils, &c19SilItem{id: id})
					ref = len(c.sils) - 1
				}
			case "expire":
				id = c.sils[ref].id
				if err := a.sil.Expire(ctx, id); err != nil {
					return c19Miss(pbt.V("lost-update", "Expire(%s) on node %s that was verified to hold it: %v", id, a.name, err))
				}
			}
			cur, _, err := a.sil.Query(ctx, silence.QIDs(id))
			if err != nil || len(cur) != 1 {
				return c19Env("author %s cannot read back silence %s: %v", a.name, id, err)
			}
			c.sils[ref].want = cur[0]
			batch = append(batch, authored{"sil", ref, a})
		case "nfl", "relog":
			if kind == "nfl" {
				k := len(c.nfls)
				c.nfls = append(c.nfls, &c19NflItem{
					recv: &nflogpb.Receiver{GroupName: fmt.Sprintf("rcv%d", k), Integration: "webhook", Idx: uint32(k % 3)},
					gkey: fmt.Sprintf("{}:{alertname=\"c19-%d\"}", k),
				})
				ref = k
			}
			it := c.nfls[ref]
			hs := c19Hashes(ref, u.Size)
			if err := a.nfl.Log(it.recv, it.gkey, hs, c19Hashes(ref+100, u.Size%3), nil, 0); err != nil {
				return c19Env("Log on %s: %v", a.name, err)
			}
			cur, err := a.nfl.Query(nflog.QReceiver(it.recv), nflog.QGroupKey(it.gkey))
			if err != nil || len(cur) != 1 {
				return c19Env("author %s cannot read back log entry %s: %v", a.name, it.gkey, err)
			}
			it.want = proto.Clone(cur[0]).(*nflogpb.Entry)
			batch = append(batch, authored{"nfl", ref, a})
		}
		if kind == "extend" || kind == "expire" || kind == "relog" {
			c.classes["update-existing"] = true
		}
	}
	// sizes of the authored parts (from what the states handed to their channel)
	for _, b := range batch {
		for _, p := range b.node.tap.snapshot(b.key) {
			switch b.key {
			case "sil":
				var ms silencepb.MeshSilence
				if protodelim.UnmarshalFrom(bytes.NewReader(p), &ms) == nil && ms.Silence != nil && ms.Silence.Id == c.sils[b.idx].id &&
					ms.Silence.UpdatedAt.AsTime().Equal(c.sils[b.idx].want.UpdatedAt.AsTime()) {
					c.sils[b.idx].size = c19PartSize("sil", p)
				}
			case "nfl":
				var me nflogpb.MeshEntry
				if protodelim.UnmarshalFrom(bytes.NewReader(p), &me) == nil && me.Entry != nil && string(me.Entry.GroupKey) == c.nfls[b.idx].gkey &&
					me.Entry.Timestamp.AsTime().Equal(c.nfls[b.idx].want.Timestamp.AsTime()) {
					c.nfls[b.idx].size = c19PartSize("nfl", p)
				}
			}
		}
	}
	// every live node holds every item authored so far
	why := c.poll(func() string {
		for _, n := range c.live {
			if w := c.holds(n); w != "" {
				return w
			}
		}
		return ""
	})
	// the verdict is about instances that stayed connected: a failure detector that
	// (under load) declared a live instance dead during the batch makes the attempt inconclusive
	for _, n := range c.live {
		if n.peer.ClusterSize() != len(c.live) {
			return c19Env("membership changed during the batch on %s (%s)", n.name, why)
		}
	}
	if after := c.peersLeft(); after != leftBefore {
		return c19Env("a live instance was declared dead during the batch (peers_left_total %v -> %v) (%s)", leftBefore, after, why)
	}
	if why != "" {
		return c19Miss(pbt.V("update-not-delivered", "%d live nodes, push/pull off: %s", len(c.live), why).With("live", len(c.live)))
	}
	c.account()
	if why := c.poll(c.counters); why != "" {
		return c19Miss(pbt.V("oversize-accounting", "%s", why))
	}
	if len(c.live) >= 2 {
		for _, b := range batch {
			size := 0
			if b.key == "sil" {
				size = c.sils[b.idx].size
			} else {
				size = c.nfls[b.idx].size
			}
			switch {
			case size == 0:
			case size > c19GossipLimit:
				c.overNormal[1]++
				c.classes["oversized"] = true
				if size > 60000 {
					c.classes["oversized>60k"] = true
				}
			default:
				c.overNormal[0]++
				c.classes["normal"] = true
				if size > c19GossipLimit-60 {
					c.classes["normal-within-60B-of-limit"] = true
				}
			}
			if size > c19GossipLimit && size <= c19GossipLimit+60 {
				c.classes["oversized-within-60B-of-limit"] = true
			}
		}
	}
	return c19Outcome{status: "ok"}
}

func (c *c19Cluster) teardown() {
	for _, n := range c.all {
		gone := false
		for _, d := range c.departed {
			gone = gone || d == n
		}
		n.stop(!gone)
	}
	for _, n := range c.all {
		c19Shutdown(n.peer)
	}
}

var c19LabelSeq int

func c19RunDelivery(sc c19DelScenario, deadline time.Duration) (out c19Outcome, c *c19Cluster) {
	c19LabelSeq++
	c = &c19Cluster{sc: sc, deadline: deadline, classes: map[string]bool{},
		label: fmt.Sprintf("c19-%d-%d-%d", os.Getpid(), c19LabelSeq, time.Now().UnixNano()%1000000)}
	defer c.teardown()
	defer func() {
		if r := recover(); r != nil {
			out = c19Miss(pbt.V("panic", "panic in the cluster run: %v", r))
		}
	}()
	if sc.GossipMs < 10 {
		sc.GossipMs = 50
		c.sc.GossipMs = 50
	}
	for _, st := range sc.Steps {
		switch st.Op {
		case "join":
			if len(c.live) >= 4 {
				continue
			}
			late := len(c.sils)+len(c.nfls) > 0
			if late {
				c.drainGossip()
			}
			n, o := c.addNode(st.Known, nil, nil)
			if o.status != "ok" {
				return o, c
			}
			if late {
				c.classes["late-joiner"] = true
				if len(c.live) == 2 {
					c.classes["late-joiner-to-single-node"] = true
				}
				if o := c.checkJoiner(n, "late joiner"); o.status != "ok" {
					return o, c
				}
			}
		case "leave":
			if len(c.live) < 2 {
				continue
			}
			i := st.Slot % len(c.live)
			n := c.live[i]
			if err := n.stop(true); err != nil {
				return c19Env("Leave of %s: %v", n.name, err), c
			}
			// the process of an instance that left exits: nothing of it may keep gossiping
			c19Shutdown(n.peer)
			c.live = append(c.live[:i:i], c.live[i+1:]...)
			c.departed = append(c.departed, n)
			if why := c.waitMembership(); why != "" {
				return c19Env("membership did not converge after leave: %s", why), c
			}
		case "restart":
			if len(c.departed) == 0 || len(c.live) >= 4 || len(c.live) == 0 {
				continue
			}
			old := c.departed[st.Slot%len(c.departed)]
			var ss, ns []byte
			if st.Snapshot {
				var sb, nb bytes.Buffer
				if _, err := old.sil.Snapshot(&sb); err != nil {
					return c19Env("snapshot: %v", err), c
				}
				if _, err := old.nfl.Snapshot(&nb); err != nil {
					return c19Env("snapshot: %v", err), c
				}
				ss, ns = sb.Bytes(), nb.Bytes()
				c.classes["rejoin-from-snapshot"] = true
			} else {
				c.classes["rejoin-empty"] = true
			}
			c.drainGossip()
			n, o := c.addNode(st.Known, ss, ns)
			if o.status != "ok" {
				return o, c
			}
			c.classes["rejoin"] = true
			if o := c.checkJoiner(n, "re-joining instance"); o.status != "ok" {
				return o, c
			}
		case "update":
			if o := c.update(st); o.status != "ok" {
				return o, c
			}
		}
	}
	c.classes[fmt.Sprintf("nodes-created=%d", len(c.all))] = true
	return c19Outcome{status: "ok"}, c
}

// c19JudgeDelivery applies the no-flake policy: a miss is retried twice from
// scratch with the deadline doubled; only three misses are a violation.
func c19JudgeDelivery(sc c19DelScenario) (v *pbt.Violation, env string, c *c19Cluster, retries int) {
	deadline := 20 * time.Second
	if ms, err := strconv.Atoi(os.Getenv("VERIF_C19_DEADLINE_MS")); err == nil && ms > 0 {
		deadline = time.Duration(ms) * time.Millisecond // sensitivity experiments only
	}
	var misses []pbt.Violation
	var envs []string
	for attempt := 0; attempt < 3; attempt++ {
		o, cl := c19RunDelivery(sc, deadline<<attempt)
		switch o.status {
		case "ok":
			return nil, "", cl, attempt
		case "miss":
			misses = append(misses, o.v)
		default:
			envs = append(envs, o.env)
		}
	}
	if len(misses) == 3 {
		m := misses[2]
		m.Message = fmt.Sprintf("%s (3 attempts from scratch, deadlines %v/%v/%v; first attempt: [%s] %s)", m.Message, deadline, 2*deadline, 4*deadline, misses[0].Kind, misses[0].Message)
		return &m, "", nil, 2
	}
	return nil, fmt.Sprintf("%d misses, environment: %s", len(misses), strings.Join(envs, "; ")), nil, 2
}

func c19FlagInt(name string, def int) int {
	set := false
	flag.Visit(func(f *flag.Flag) { set = set || f.Name == name })
	if f := flag.Lookup(name); set && f != nil {
		if v, err := strconv.Atoi(f.Value.String()); err == nil {
			return v
		}
	}
	return def
}

const c19DeliveryRule = "scenario drawn by a rapid generator from the seed: 1-4 initial instances with generated join order and --cluster.peer subsets, batches of 2-10 updates (new silences, extended/expired silences, new and re-logged notification-log entries) authored on generated nodes with payload sizes swept across the 700-byte limit of an encoded part (small, within 60 bytes of the limit, 1-6 kB, 20-150 kB), a late joiner (80%), and an instance that leaves, misses a batch and comes back as a new instance with or without its snapshot (70%); periodic push/pull is off (24 h) so only gossip and the reliable send can deliver updates, and every gossip queue is emptied before a join so only the full-state exchange can serve a joiner. Oracle after every batch/join: every live node answers the query for every item authored so far with the author's version (proto-equal), oversized_gossip_message_sent_total >= oversized payloads x peers, = 0 on nodes whose payloads all fit the limit, dropped_total = 0. Non-trivial: >=1 oversized and >=1 normal update were verified on >=2 members. A miss is retried twice from scratch with doubled deadlines (20/40/80 s); three misses = violation; environment errors = inconclusive case."

func TestC19Delivery(t *testing.T) {
	const name = "C19Delivery"
	if pbt.Replaying() {
		var sc c19DelScenario
		if !pbt.ReplayScenario(name, &sc) {
			t.Skip("replay file is for another check")
		}
		v, env, _, _ := c19JudgeDelivery(sc)
		if v != nil {
			fmt.Printf("REPLAY-RAN check=%s violations=1\n", name)
			fmt.Printf("REPLAY-VIOLATION [%s] %s\n", v.Kind, v.Message)
			t.Fatalf("replay fails: [%s] %s", v.Kind, v.Message)
		}
		if env != "" {
			t.Skipf("replay inconclusive: %s", env)
		}
		fmt.Printf("REPLAY-RAN check=%s violations=0\n", name)
		return
	}
	cases := c19FlagInt("rapid.checks", 3)
	seed := c19FlagInt("rapid.seed", 1)
	m := pbt.NewManual("C19", name, c19DeliveryRule)
	defer m.Flush()
	g := rapid.Custom(genC19Delivery)
	inconclusive, retried := 0, 0
	for i := 0; i < cases; i++ {
		sc := g.Example(seed*7919 + i)
		v, env, c, retries := c19JudgeDelivery(sc)
		retried += retries
		m.Set("retried_attempts", retried)
		if v != nil {
			m.Violation(t, sc, *v)
			return
		}
		if env != "" {
			inconclusive++
			m.Set("inconclusive_cases", inconclusive)
			t.Logf("case %d inconclusive (skipped): %s", i, env)
			continue
		}
		var cls []string
		for k := range c.classes {
			cls = append(cls, k)
		}
		sort.Strings(cls)
		cls = append(cls, fmt.Sprintf("live-at-end=%d", len(c.live)))
		m.Case(sc, c.overNormal[0] > 0 && c.overNormal[1] > 0, cls...)
	}
	if inconclusive*2 > cases {
		t.Fatalf("INCONCLUSIVE: %d of %d cases hit environment errors", inconclusive, cases)
	}
}
