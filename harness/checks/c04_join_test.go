package checks

// C04Join: "the same group state is sent again only if more than repeat_interval has passed since the previous one was
// delivered", as seen by an instance that learns of the previous deliveries through the cluster (per-entry gossip or
// the full-state exchange of a join): instance 1 notifies k groups through the real receiver pipeline and records them
// in its notification log; the log reaches instance 2 as single-entry messages and / or as full-state blobs holding
// several entries; instance 2 then flushes the same, unchanged groups one group_interval later and must send nothing.

import (
	"context"
	"fmt"
	"sync"
	"testing"
	"time"

	"github.com/prometheus/client_golang/prometheus"
	"github.com/prometheus/common/model"
	"pgregory.net/rapid"

	"github.com/prometheus/alertmanager/alert"
	"github.com/prometheus/alertmanager/eventrecorder"
	"github.com/prometheus/alertmanager/featurecontrol"
	"github.com/prometheus/alertmanager/inhibit"
	"github.com/prometheus/alertmanager/marker"
	"github.com/prometheus/alertmanager/nflog"
	"github.com/prometheus/alertmanager/notify"
	"github.com/prometheus/alertmanager/silence"
	"github.com/prometheus/alertmanager/timeinterval"

	"verif/harness/pbt"
)

type c04jScenario struct {
	Groups     int   `json:"groups"`      // 1-8 groups notified by instance 1
	Gossiped   []int `json:"gossiped"`    // groups whose entry also travels as its own single-entry message (mod Groups)
	FullStates int   `json:"full_states"` // 0-2 full-state exchanges (MarshalBinary of instance 1 merged into instance 2)
	LongKeys   bool  `json:"long_keys"`   // group keys long enough to push the full state over the gossip size limit
	GapS       int   `json:"gap_s"`       // seconds until instance 2 flushes
}

func genC04Join(t *rapid.T) c04jScenario {
	sc := c04jScenario{Groups: rapid.IntRange(1, 8).Draw(t, "groups"), FullStates: rapid.IntRange(0, 2).Draw(t, "fullStates"), LongKeys: rapid.IntRange(0, 3).Draw(t, "long") == 0,
		GapS: rapid.SampledFrom([]int{1, 60, 300, 3600}).Draw(t, "gap")}
	for i, n := 0, rapid.IntRange(0, sc.Groups).Draw(t, "nGossiped"); i < n; i++ {
		sc.Gossiped = append(sc.Gossiped, rapid.IntRange(0, sc.Groups-1).Draw(t, "gossiped"))
	}
	return sc
}

type c04jCount struct {
	mu   sync.Mutex
	sent []string
}

func (c *c04jCount) Notify(ctx context.Context, as ...*alert.Alert) (bool, error) {
	gk, _ := notify.GroupKey(ctx)
	c.mu.Lock()
	c.sent = append(c.sent, gk)
	c.mu.Unlock()
	return false, nil
}

type c04jRS struct{}

func (c04jRS) SendResolved() bool { return true }

func execC04Join(sc c04jScenario) (res pbt.Result) {
	covered := map[int]bool{}
	bubble(func() {
		rec := eventrecorder.NopRecorder()
		type inst struct {
			nl   *nflog.Log
			pipe notify.Stage
			n    *c04jCount
			wire [][]byte
		}
		mk := func() *inst {
			reg := prometheus.NewRegistry()
			in := &inst{n: &c04jCount{}}
			var err error
			in.nl, err = nflog.New(nflog.Options{Retention: 120 * time.Hour, Metrics: reg})
			if err != nil {
				res.Fail("harness", "nflog.New: %v", err)
				return nil
			}
			in.nl.SetBroadcast(func(b []byte) { in.wire = append(in.wire, append([]byte(nil), b...)) })
			sils, err := silence.New(silence.Options{Retention: time.Hour, Metrics: reg, EventRecorder: rec})
			if err != nil {
				res.Fail("harness", "silence.New: %v", err)
				return nil
			}
			in.pipe = notify.NewPipelineBuilder(reg, featurecontrol.NoopFlags{}, rec).New(
				map[string][]notify.Integration{"r": {notify.NewIntegration(in.n, c04jRS{}, "webhook", 0, "r")}},
				func() time.Duration { return 0 }, inhibit.NewInhibitor(nil, nil, nopLog, rec), silence.NewSilencer(sils, nopLog, rec),
				timeinterval.NewIntervener(nil), marker.NewGroupMarker(), in.nl, nil)
			return in
		}
		a, b := mk(), mk()
		if a == nil || b == nil {
			return
		}
		gk := func(g int) string {
			if sc.LongKeys {
				return fmt.Sprintf("{}:{g=\"%d\", pad=\"%0300d\"}", g, g)
			}
			return fmt.Sprintf("{}:{g=\"%d\"}", g)
		}
		t0 := time.Now()
		batch := func(g int) []*alert.Alert {
			var out []*alert.Alert
			for i := 0; i <= g%3; i++ {
				out = append(out, &alert.Alert{Alert: model.Alert{Labels: model.LabelSet{"g": model.LabelValue(fmt.Sprint(g)), "i": model.LabelValue(fmt.Sprint(i))}, StartsAt: t0.Add(-time.Minute), EndsAt: t0.Add(100 * time.Hour)}, UpdatedAt: t0})
			}
			return out
		}
		flush := func(in *inst, g int) error {
			now := time.Now()
			ctx, cancel := context.WithTimeout(context.Background(), time.Minute)
			defer cancel()
			ctx = notify.WithNow(ctx, now)
			ctx = notify.WithGroupKey(ctx, gk(g))
			ctx = notify.WithGroupLabels(ctx, model.LabelSet{"g": model.LabelValue(fmt.Sprint(g))})
			ctx = notify.WithReceiverName(ctx, "r")
			ctx = notify.WithRepeatInterval(ctx, 4*time.Hour)
			ctx = notify.WithMuteTimeIntervals(ctx, nil)
			ctx = notify.WithActiveTimeIntervals(ctx, nil)
			ctx = notify.WithRouteID(ctx, "{}")
			_, _, err := in.pipe.Exec(ctx, nopLog, batch(g)...)
			return err
		}
		perGroupWire := map[int][]byte{}
		for g := 0; g < sc.Groups; g++ {
			time.Sleep(time.Millisecond)
			before := len(a.wire)
			if err := flush(a, g); err != nil {
				res.Fail("harness", "instance 1 flush of group %d: %v", g, err)
				return
			}
			if len(a.wire) > before {
				perGroupWire[g] = a.wire[len(a.wire)-1]
			}
		}
		if len(a.n.sent) != sc.Groups {
			res.Fail("harness", "instance 1 sent %d notifications for %d groups", len(a.n.sent), sc.Groups)
			return
		}
		time.Sleep(time.Second)
		for _, g := range sc.Gossiped {
			if w, ok := perGroupWire[g%sc.Groups]; ok {
				if err := b.nl.Merge(w); err != nil {
					res.Add(pbt.V("merge-error", "instance 2 refused the gossiped entry of group %d: %v", g%sc.Groups, err))
				}
				covered[g%sc.Groups] = true
			}
		}
		for i := 0; i < sc.FullStates; i++ {
			st, err := a.nl.MarshalBinary()
			if err != nil {
				res.Fail("harness", "MarshalBinary: %v", err)
				return
			}
			if err := b.nl.Merge(st); err != nil {
				res.Add(pbt.V("merge-error", "instance 2 refused instance 1's full state: %v", err))
			}
			for g := 0; g < sc.Groups; g++ {
				covered[g] = true
			}
		}
		time.Sleep(time.Duration(sc.GapS) * time.Second)
		for g := 0; g < sc.Groups; g++ {
			if !covered[g] {
				continue
			}
			before := len(b.n.sent)
			if err := flush(b, g); err != nil {
				res.Fail("harness", "instance 2 flush of group %d: %v", g, err)
				return
			}
			if len(b.n.sent) != before {
				res.Add(pbt.V("notified-although-peer-delivered", "instance 2 learned through the cluster (%d single entries, %d full states of %d entries) that group %d had been notified %s ago with the same alerts, repeat_interval is 4h, and it notified again", len(sc.Gossiped), sc.FullStates, sc.Groups, g, time.Since(t0).Round(time.Second)).
					With("full_states", sc.FullStates).With("groups", sc.Groups))
			}
		}
	})
	res.NonTrivial = sc.FullStates > 0 && sc.Groups >= 2
	if sc.LongKeys {
		res.Class("long-group-keys")
	}
	return res
}

func TestC04Join(t *testing.T) {
	pbt.Run(t, pbt.Spec[c04jScenario]{
		Property: "C04", Name: "C04Join",
		Rule: "two instances, each a real notification log behind the real receiver pipeline (PipelineBuilder: gossip settle, mute stages, wait, dedup, retry, set-notifies) with a counting notifier, in one bubble. Instance 1 notifies 1-8 groups (1-3 firing alerts each; group keys short, or 300 characters so that a full state exceeds the gossip size limit); its broadcasts are captured. Instance 2 receives a generated subset of them as single-entry messages and 0-2 full states (MarshalBinary, several entries in one buffer); 1 s to 1 h later (repeat_interval 4 h) it flushes every group it was told about, unchanged, and must send nothing. Non-trivial: at least one full state with two or more entries.",
		Gen:  genC04Join, Exec: execC04Join,
	})
}
