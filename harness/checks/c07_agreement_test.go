package checks

import (
	"bytes"
	"context"
	"encoding/json"
	"fmt"
	"log/slog"
	"net/http"
	"net/http/httptest"
	"net/url"
	"sort"
	"sync"
	"testing"
	"testing/synctest"
	"time"

	"github.com/prometheus/client_golang/prometheus"
	"github.com/prometheus/common/model"
	"github.com/prometheus/common/route"
	"pgregory.net/rapid"

	"github.com/prometheus/alertmanager/alert"
	"github.com/prometheus/alertmanager/api"
	"github.com/prometheus/alertmanager/api/v2/models"
	"github.com/prometheus/alertmanager/cli"
	"github.com/prometheus/alertmanager/dispatch"
	"github.com/prometheus/alertmanager/eventrecorder"
	"github.com/prometheus/alertmanager/featurecontrol"
	"github.com/prometheus/alertmanager/marker"
	"github.com/prometheus/alertmanager/notify"
	"github.com/prometheus/alertmanager/provider/mem"
	"github.com/prometheus/alertmanager/silence"
	"github.com/prometheus/alertmanager/template"

	"verif/harness/gen"
	"verif/harness/pbt"
	"verif/harness/ref"
)

func c07GenAgreement(t *rapid.T) c07Scenario {
	// Timers are kept short so that the first flush of every group lies within
	// a short virtual horizon and only a handful of flushes follow it.
	o := gen.C07TreeOpts{
		MaxNodes:       16,
		GroupWaits:     []string{"0s", "1s", "10s", "30s", "90s"},
		GroupIntervals: []string{"30s", "1m", "5m", "1h"},
	}
	if pbt.Thorough() {
		o.MaxNodes = 24
	}
	return c07GenScenario(t, o, 4)
}

// what the three observers report about one alert (label set)
type c07Group struct {
	Receiver    string
	GroupKey    string
	Labels      map[string]string
	RouteLabels map[string]string
}

type c07Notification struct {
	Receiver    string
	GroupKey    string
	RouteLabels map[string]string
	Repeat      time.Duration
	Mute        []string
	Active      []string
	Alerts      []string // canonical label-set texts
}

type c07Observed struct {
	err           string
	apiStatus     int
	apiReceivers  map[string][][]string // canonical label text -> receivers lists (one per returned alert object)
	groups        map[string][]c07Group
	groupsByFP    map[string][]string
	notifications []c07Notification
}

func c07Canon(ls map[string]string) string {
	return ref.GroupKey("", ls)
}

func c07FromLabelSet(ls model.LabelSet) map[string]string {
	out := map[string]string{}
	for k, v := range ls {
		out[string(k)] = string(v)
	}
	return out
}

// c07RunSystem posts the alerts through the real API into a real provider
// with a real dispatcher attached and collects what each of them reports.
// Runs inside a bubble; no judging here.
func c07RunSystem(sc c07Scenario, lsets []map[string]string, horizon time.Duration) (obs c07Observed) {
	obs.apiReceivers = map[string][][]string{}
	obs.groups = map[string][]c07Group{}
	obs.groupsByFP = map[string][]string{}
	_, cfg, _, err := c07Load(sc)
	if err != nil {
		obs.err = "load: " + err.Error()
		return obs
	}
	reg := prometheus.NewRegistry()
	ctx, cancel := context.WithCancel(context.Background())
	defer cancel()
	alerts, err := mem.NewAlerts(ctx, 30*time.Minute, 0, nil, nopLog, eventrecorder.NopRecorder(), reg, featurecontrol.NoopFlags{})
	if err != nil {
		obs.err = "mem.NewAlerts: " + err.Error()
		return obs
	}
	defer alerts.Close()
	sil, err := silence.New(silence.Options{Retention: time.Hour, Logger: nopLog, Metrics: reg})
	if err != nil {
		obs.err = "silence.New: " + err.Error()
		return obs
	}
	tmpl, err := template.FromGlobs(nil)
	if err != nil {
		obs.err = "template: " + err.Error()
		return obs
	}
	tmpl.ExternalURL, _ = url.Parse("http://am.example")
	var mu sync.Mutex
	stage := notify.StageFunc(func(ctx context.Context, _ *slog.Logger, as ...*alert.Alert) (context.Context, []*alert.Alert, error) {
		n := c07Notification{}
		n.Receiver, _ = notify.ReceiverName(ctx)
		n.GroupKey, _ = notify.GroupKey(ctx)
		rl, _ := notify.RouteLabels(ctx)
		n.RouteLabels = c07FromLabelSet(rl)
		n.Repeat, _ = notify.RepeatInterval(ctx)
		n.Mute, _ = notify.MuteTimeIntervalNames(ctx)
		n.Active, _ = notify.ActiveTimeIntervalNames(ctx)
		for _, a := range as {
			n.Alerts = append(n.Alerts, c07Canon(c07FromLabelSet(a.Labels)))
		}
		mu.Lock()
		obs.notifications = append(obs.notifications, n)
		mu.Unlock()
		return ctx, as, nil
	})
	disp := dispatch.NewDispatcher(alerts, dispatch.NewRoute(cfg.Route, nil), stage, marker.NewGroupMarker(),
		func(d time.Duration) time.Duration { return d }, 15*time.Minute, nil, nopLog, eventrecorder.NopRecorder(), nil, tmpl)
	go disp.Run(time.Now())
	defer disp.Stop()
	disp.WaitForLoading()
	synctest.Wait()

	a, err := api.New(api.Options{
		Alerts:         alerts,
		Silences:       sil,
		GroupFunc:      disp.Groups,
		GroupMutedFunc: func(string, string) ([]string, bool) { return nil, false },
		Logger:         nopLog,
		Registry:       reg,
		RequestDuration: prometheus.NewHistogramVec(prometheus.HistogramOpts{Name: "c07_http_request_duration_seconds", Help: "x"},
			[]string{"handler", "method", "code"}),
	})
	if err != nil {
		obs.err = "api.New: " + err.Error()
		return obs
	}
	a.Update(cfg, func(context.Context, model.LabelSet) {})
	mux := a.Register(route.New(), "/")

	type postable struct {
		Labels map[string]string `json:"labels"`
		EndsAt string            `json:"endsAt"`
	}
	var body []postable
	// firing for the whole horizon, whatever resolve_timeout says
	endsAt := time.Now().Add(horizon + 24*time.Hour).UTC().Format(time.RFC3339)
	for _, ls := range lsets {
		body = append(body, postable{Labels: ls, EndsAt: endsAt})
	}
	bj, _ := json.Marshal(body)
	req := httptest.NewRequest(http.MethodPost, "/api/v2/alerts", bytes.NewReader(bj))
	req.Header.Set("Content-Type", "application/json")
	rec := httptest.NewRecorder()
	mux.ServeHTTP(rec, req)
	if rec.Code != http.StatusOK {
		obs.err = fmt.Sprintf("POST /api/v2/alerts: %d %s", rec.Code, rec.Body.String())
		return obs
	}
	synctest.Wait()

	// (b) the API's view
	rec = httptest.NewRecorder()
	mux.ServeHTTP(rec, httptest.NewRequest(http.MethodGet, "/api/v2/alerts", nil))
	obs.apiStatus = rec.Code
	var gettable []struct {
		Labels    map[string]string `json:"labels"`
		Receivers []struct {
			Name string `json:"name"`
		} `json:"receivers"`
	}
	if rec.Code == http.StatusOK {
		if err := json.Unmarshal(rec.Body.Bytes(), &gettable); err != nil {
			obs.err = "GET /api/v2/alerts: " + err.Error()
			return obs
		}
	}
	for _, g := range gettable {
		var rs []string
		for _, r := range g.Receivers {
			rs = append(rs, r.Name)
		}
		k := c07Canon(g.Labels)
		obs.apiReceivers[k] = append(obs.apiReceivers[k], rs)
	}

	// (c) the dispatcher's groups
	groups, byFP, err := disp.Groups(context.Background(), func(*dispatch.Route) bool { return true }, func(*alert.Alert, time.Time) bool { return true })
	if err != nil {
		obs.err = "Dispatcher.Groups: " + err.Error()
		return obs
	}
	for _, g := range groups {
		for _, al := range g.Alerts {
			k := c07Canon(c07FromLabelSet(al.Labels))
			obs.groups[k] = append(obs.groups[k], c07Group{
				Receiver: g.Receiver, GroupKey: g.GroupKey,
				Labels: c07FromLabelSet(g.Labels), RouteLabels: c07FromLabelSet(g.RouteLabels),
			})
		}
	}
	for _, ls := range lsets {
		obs.groupsByFP[c07Canon(ls)] = append([]string{}, byFP[toLabelSet(ls).Fingerprint()]...)
	}

	// (d) let every group flush (twice at most for late joiners)
	time.Sleep(horizon)
	synctest.Wait()
	return obs
}

func c07SortedCopy(s []string) []string {
	out := append([]string{}, s...)
	sort.Strings(out)
	return out
}

func c07ExecAgreement(sc c07Scenario) (res pbt.Result) {
	_, _, root, err := c07Load(sc)
	if err != nil {
		res.Add(pbt.V("load", "a documented-valid configuration was not accepted: %v", err))
		return res
	}
	text := ref.ConfigYAML(sc.Tree, sc.Receivers, sc.Intervals)

	// distinct label sets only: the provider keys alerts by their label set
	var lsets []map[string]string
	dedup := map[string]bool{}
	for _, ls := range sc.LabelSets {
		if k := c07Canon(ls); !dedup[k] {
			dedup[k] = true
			lsets = append(lsets, ls)
		}
	}
	want := map[string][]ref.RoutedTo{}
	// An alert that joins an existing group after its first flush "will be
	// sent at the next group_interval instead" (docs): with several alerts per
	// group and concurrent ingestion the bound is group_wait + group_interval.
	horizon := time.Duration(0)
	for _, ls := range lsets {
		w := ref.Route(sc.Tree, ls)
		want[c07Canon(ls)] = w
		for _, r := range w {
			if h := r.GroupWait + r.GroupInterval; h > horizon {
				horizon = h
			}
		}
	}
	horizon += time.Second

	// (a) amtool config routes test
	for _, ls := range lsets {
		w := want[c07Canon(ls)]
		var wantR []string
		for _, r := range w {
			wantR = append(wantR, r.Receiver)
		}
		mls := models.LabelSet(ls)
		got, err := cli.VerifResolveAlertReceivers(root, &mls)
		if err != nil || !c07SameStrings(got, wantR) {
			res.Add(pbt.V("amtool", "amtool resolves %v to %v (err %v), reference %v\n%s", ls, got, err, wantR, text).With("observer", "amtool"))
		}
	}

	var obs c07Observed
	bubble(func() { obs = c07RunSystem(sc, lsets, horizon) })
	if obs.err != "" {
		res.Add(pbt.V("system", "could not run the system: %s\n%s", obs.err, text))
		return res
	}
	if obs.apiStatus != http.StatusOK {
		res.Add(pbt.V("api", "GET /api/v2/alerts answered %d", obs.apiStatus))
	}

	seen := map[string]bool{}
	nonRoot := false
	for _, ls := range lsets {
		k := c07Canon(ls)
		w := want[k]
		var wantR []string
		wantSet := map[string]bool{}
		for _, r := range w {
			wantR = append(wantR, r.Receiver)
			wantSet[r.Receiver] = true
		}
		wantSorted := c07SortedCopy(wantR)

		// (b) API: receivers as a set
		switch lists := obs.apiReceivers[k]; {
		case len(lists) != 1:
			res.Add(pbt.V("api", "GET /api/v2/alerts lists the alert %v %d times", ls, len(lists)).With("observer", "api"))
		default:
			gotSet := map[string]bool{}
			for _, r := range lists[0] {
				gotSet[r] = true
			}
			if fmt.Sprint(gotSet) != fmt.Sprint(wantSet) {
				res.Add(pbt.V("api", "GET /api/v2/alerts: receivers of %v are %v, reference %v\n%s", ls, lists[0], wantR, text).With("observer", "api"))
			}
		}

		// (c) dispatcher groups: receivers as a multiset, one group per chosen route
		var gotR []string
		for _, g := range obs.groups[k] {
			gotR = append(gotR, g.Receiver)
		}
		sort.Strings(gotR)
		if !c07SameStrings(gotR, wantSorted) {
			res.Add(pbt.V("dispatcher-groups", "Dispatcher.Groups holds %v in groups of receivers %v, reference %v\n%s", ls, gotR, wantSorted, text).With("observer", "groups"))
		}
		if fp := c07SortedCopy(obs.groupsByFP[k]); !c07SameStrings(fp, wantSorted) {
			res.Add(pbt.V("dispatcher-groups", "Dispatcher.Groups receivers-by-fingerprint of %v are %v, reference %v\n%s", ls, fp, wantSorted, text).With("observer", "groups-by-fp"))
		}
		// every chosen route has its own group with the independently computed
		// key, group labels and merged route labels. Two chosen routes may have
		// the same key and receiver (Key "does not uniquely identify the route"),
		// so whole tuples are matched one to one.
		used := make([]bool, len(obs.groups[k]))
		for _, r := range w {
			gl := r.GroupLabels(ls)
			k1, k2 := ref.GroupKey(r.RouteKey, gl), ref.GroupKey(r.RouteKeyPlain, gl)
			found := false
			for i, g := range obs.groups[k] {
				if used[i] || g.Receiver != r.Receiver || (g.GroupKey != k1 && g.GroupKey != k2) ||
					fmt.Sprint(g.Labels) != fmt.Sprint(gl) || fmt.Sprint(g.RouteLabels) != fmt.Sprint(r.Labels) {
					continue
				}
				used[i] = true
				found = true
				break
			}
			if !found {
				res.Add(pbt.V("group-key", "no (further) group (receiver %s, key %s, labels %v, route labels %v) holds %v; groups: %+v\n%s", r.Receiver, k1, gl, r.Labels, ls, obs.groups[k], text).With("observer", "groups"))
			}
		}

		// (d) the notification context: every chosen route notifies with its
		// receiver, group key, repeat interval, interval names and route labels,
		// and every notification that carries the alert is one of those.
		matches := func(n c07Notification, r ref.RoutedTo) bool {
			gl := r.GroupLabels(ls)
			return n.Receiver == r.Receiver && (n.GroupKey == ref.GroupKey(r.RouteKey, gl) || n.GroupKey == ref.GroupKey(r.RouteKeyPlain, gl)) &&
				n.Repeat == r.RepeatInterval && c07SameStrings(n.Mute, r.Mute) && c07SameStrings(n.Active, r.Active) &&
				fmt.Sprint(n.RouteLabels) == fmt.Sprint(r.Labels)
		}
		var mine []c07Notification
		for _, n := range obs.notifications {
			for _, a := range n.Alerts {
				if a == k {
					mine = append(mine, n)
					break
				}
			}
		}
		for _, r := range w {
			found := false
			for _, n := range mine {
				found = found || matches(n, r)
			}
			if !found {
				res.Add(pbt.V("notify-missing", "within group_wait+group_interval+1s no notification for %v reached the pipeline with receiver=%s key=%s repeat=%v mute=%v active=%v routeLabels=%v; notifications carrying it: %+v\n%s",
					ls, r.Receiver, ref.GroupKey(r.RouteKey, r.GroupLabels(ls)), r.RepeatInterval, r.Mute, r.Active, r.Labels, mine, text).With("observer", "notify"))
			}
		}
		for _, n := range mine {
			found := false
			for _, r := range w {
				found = found || matches(n, r)
			}
			if !found {
				res.Add(pbt.V("notify-foreign", "a notification for %v (receiver=%s key=%s repeat=%v mute=%v active=%v routeLabels=%v) corresponds to no route the reference chooses (%s)\n%s",
					ls, n.Receiver, n.GroupKey, n.Repeat, n.Mute, n.Active, n.RouteLabels, c07Paths(w), text).With("observer", "notify"))
			}
		}

		if c07Classify(&res, sc.Tree, ls, w, seen) {
			nonRoot = true
		}
	}
	res.NonTrivial = sc.Tree.Depth() >= 2 && nonRoot
	return res
}

const c07AgreementRule = "same generator as C07Route with short timers (group_wait <=90s, group_interval >=30s, <=16 nodes, 1-4 label sets); per case a real mem provider, real Dispatcher (recording notify.Stage) and the real api.New/Register HTTP mux run in a synctest bubble: the alerts are POSTed to /api/v2/alerts, then (a) amtool's resolveAlertReceivers must equal the reference receiver list in order, (b) GET /api/v2/alerts `receivers` must equal it as a set, (c) Dispatcher.Groups must hold the alert in exactly one group per chosen route (receivers as a multiset, also via its receivers-by-fingerprint map; group key = independently computed route key + ':' + group labels; group route labels = merged labels), (d) after max(group_wait+group_interval)+1s a notification with that receiver, group key, repeat interval and interval names reached the pipeline and none went to a receiver the reference does not name. Non-trivial: as C07Route."

func TestC07Agreement(t *testing.T) {
	pbt.Run(t, pbt.Spec[c07Scenario]{
		Property: "C07", Name: "C07Agreement",
		Rule: c07AgreementRule,
		Gen:  c07GenAgreement, Exec: c07ExecAgreement,
	})
}
