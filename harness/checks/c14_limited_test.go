package checks

// C14Limited: "after the updates submitted for an alert have been processed, every aggregation group holding that
// alert holds the most recently submitted version" when an aggregation-group limit is in force and the alert is routed
// to several routes (continue: true): a route whose group cannot be created for the limit is skipped, the groups of
// the other routes still receive every update. Nothing flushes (timers of an hour), so no group is ever destroyed and
// the reference knows exactly which groups exist.

import (
	"context"
	"fmt"
	"log/slog"
	"testing"
	"testing/synctest"
	"time"

	"github.com/prometheus/client_golang/prometheus"
	"github.com/prometheus/common/model"
	"pgregory.net/rapid"

	"github.com/prometheus/alertmanager/alert"
	"github.com/prometheus/alertmanager/config"
	"github.com/prometheus/alertmanager/dispatch"
	"github.com/prometheus/alertmanager/eventrecorder"
	"github.com/prometheus/alertmanager/featurecontrol"
	"github.com/prometheus/alertmanager/marker"
	"github.com/prometheus/alertmanager/notify"
	"github.com/prometheus/alertmanager/provider/mem"

	"verif/harness/pbt"
)

type c14lPut struct {
	Alert   int  `json:"alert"`   // alert i has g0 = G[0][i], g1 = G[1][i], …
	Resolve bool `json:"resolve"` // this version ends now (else: fires for ten hours)
}

type c14lScenario struct {
	Limit  int       `json:"limit"`
	Routes int       `json:"routes"` // sibling routes, all but possibly the last with continue: true, route r groups by label g<r>
	LastGo bool      `json:"last_continue"`
	G      [][]int   `json:"g"` // per route, per alert: the value of that route's group_by label
	Puts   []c14lPut `json:"puts"`
}

func genC14Limited(t *rapid.T) c14lScenario {
	sc := c14lScenario{Limit: rapid.IntRange(1, 5).Draw(t, "limit"), Routes: rapid.IntRange(2, 3).Draw(t, "routes"), LastGo: rapid.Bool().Draw(t, "lastContinue")}
	nAlerts := rapid.IntRange(2, 5).Draw(t, "alerts")
	for r := 0; r < sc.Routes; r++ {
		var vs []int
		for i := 0; i < nAlerts; i++ {
			vs = append(vs, rapid.IntRange(0, 2).Draw(t, "gv"))
		}
		sc.G = append(sc.G, vs)
	}
	n := rapid.IntRange(3, 16).Draw(t, "puts")
	for i := 0; i < n; i++ {
		sc.Puts = append(sc.Puts, c14lPut{Alert: rapid.IntRange(0, nAlerts-1).Draw(t, "alert"), Resolve: rapid.IntRange(0, 2).Draw(t, "resolve") == 0})
	}
	return sc
}

func execC14Limited(sc c14lScenario) (res pbt.Result) {
	skippedThenUpdated := false
	synctest.Test(pbt.T(), func(*testing.T) {
		ctx, cancel := context.WithCancel(context.Background())
		defer cancel()
		reg := prometheus.NewRegistry()
		alerts, err := mem.NewAlerts(ctx, time.Hour, 0, nil, nopLog, eventrecorder.NopRecorder(), reg, featurecontrol.NoopFlags{})
		if err != nil {
			res.Fail("harness", "%v", err)
			return
		}
		defer alerts.Close()
		hour := model.Duration(time.Hour)
		root := &config.Route{Receiver: "root", GroupWait: &hour, GroupInterval: &hour, RepeatInterval: &hour}
		for r := 0; r < sc.Routes; r++ {
			ln := fmt.Sprintf("g%d", r)
			root.Routes = append(root.Routes, &config.Route{Receiver: fmt.Sprintf("r%d", r), GroupByStr: []string{ln}, GroupBy: []model.LabelName{model.LabelName(ln)},
				Continue: r < sc.Routes-1 || sc.LastGo})
		}
		stage := notify.StageFunc(func(ctx context.Context, _ *slog.Logger, as ...*alert.Alert) (context.Context, []*alert.Alert, error) {
			return ctx, as, nil
		})
		dm := dispatch.NewDispatcherMetrics(false, reg, featurecontrol.NoopFlags{})
		disp := dispatch.NewDispatcher(alerts, dispatch.NewRoute(root, nil), stage, marker.NewGroupMarker(), func(d time.Duration) time.Duration { return d },
			time.Hour, c06Limits(sc.Limit), nopLog, eventrecorder.NopRecorder(), dm, nil)
		go disp.Run(time.Now())
		disp.WaitForLoading()
		defer func() { disp.Stop(); synctest.Wait() }()

		labelsOf := func(i int) model.LabelSet {
			ls := model.LabelSet{"alertname": model.LabelValue(fmt.Sprintf("A%d", i))}
			for r := 0; r < sc.Routes; r++ {
				ls[model.LabelName(fmt.Sprintf("g%d", r))] = model.LabelValue(fmt.Sprint(sc.G[r][i]))
			}
			return ls
		}
		live := make([]map[int]bool, sc.Routes)          // per route: the group values whose group exists
		holds := make([]map[int]map[int]bool, sc.Routes) // per route, per group value: the alerts the group holds
		for r := range live {
			live[r], holds[r] = map[int]bool{}, map[int]map[int]bool{}
		}
		total := 0
		firstStart := map[int]time.Time{}
		for pi, p := range sc.Puts {
			time.Sleep(time.Second)
			now := time.Now()
			if _, ok := firstStart[p.Alert]; !ok {
				firstStart[p.Alert] = now
			}
			a := &alert.Alert{Alert: model.Alert{Labels: labelsOf(p.Alert), StartsAt: firstStart[p.Alert], EndsAt: now.Add(10 * time.Hour)}, UpdatedAt: now}
			if p.Resolve {
				a.EndsAt = now
			}
			if err := alerts.Put(ctx, a); err != nil {
				res.Fail("harness", "Put: %v", err)
				return
			}
			synctest.Wait()
			skipped := false
			for r := 0; r < sc.Routes; r++ {
				gv := sc.G[r][p.Alert]
				switch {
				case live[r][gv]:
					if skipped && holds[r][gv][p.Alert] {
						skippedThenUpdated = true
					}
					holds[r][gv][p.Alert] = true
				case total < sc.Limit:
					live[r][gv], holds[r][gv] = true, map[int]bool{p.Alert: true}
					total++
				default:
					skipped = true
				}
			}
			stored, err := alerts.Get(labelsOf(p.Alert).Fingerprint())
			if err != nil {
				res.Fail("harness", "provider does not hold the alert just put: %v", err)
				return
			}
			groups, _, err := disp.Groups(ctx, func(*dispatch.Route) bool { return true }, func(*alert.Alert, time.Time) bool { return true })
			if err != nil {
				res.Fail("harness", "Groups: %v", err)
				return
			}
			if len(groups) > sc.Limit {
				res.Class("other-property:group-limit-exceeded")
			}
			for r := 0; r < sc.Routes; r++ {
				gv := sc.G[r][p.Alert]
				if !holds[r][gv][p.Alert] {
					continue
				}
				var held *alert.Alert
				for _, g := range groups {
					if g.Receiver != fmt.Sprintf("r%d", r) || string(g.Labels[model.LabelName(fmt.Sprintf("g%d", r))]) != fmt.Sprint(gv) {
						continue
					}
					for _, al := range g.Alerts {
						if al.Labels.Fingerprint() == stored.Labels.Fingerprint() {
							held = al
						}
					}
				}
				what := map[bool]string{true: "resolved", false: "firing"}[p.Resolve]
				if held == nil {
					res.Add(pbt.V("group-misses-update", "put %d (%s version of alert %d) with %d of at most %d groups live: the group {g%d=%d} of route r%d exists and must hold the alert, the groups view does not show it there", pi, what, p.Alert, total, sc.Limit, r, gv, r))
					continue
				}
				if !held.EndsAt.Equal(stored.EndsAt) || !held.UpdatedAt.Equal(stored.UpdatedAt) {
					res.Add(pbt.V("group-holds-older-version", "put %d (%s version of alert %d) with %d of at most %d groups live: group {g%d=%d} of route r%d holds the version ending %s updated %s, the provider's current version ends %s updated %s",
						pi, what, p.Alert, total, sc.Limit, r, gv, r, held.EndsAt.Format(time.RFC3339Nano), held.UpdatedAt.Format(time.RFC3339Nano), stored.EndsAt.Format(time.RFC3339Nano), stored.UpdatedAt.Format(time.RFC3339Nano)))
				}
			}
			if len(res.Violations) > 0 {
				return
			}
		}
	})
	res.NonTrivial = skippedThenUpdated
	return res
}

func TestC14Limited(t *testing.T) {
	pbt.Run(t, pbt.Spec[c14lScenario]{
		Property: "C14", Name: "C14Limited",
		Rule: "a real provider and dispatcher with an aggregation-group limit of 1-5 and 2-3 sibling routes that every alert matches in turn (continue: true), route r grouping by its own label g<r> (3 values); timers of an hour, so nothing flushes and no group is destroyed. 3-16 firing / resolved versions of 2-5 alerts are put one second apart. After each put, every group that exists and that the alert belongs to (created while the limit allowed, whatever happened to the alert's other routes) holds the provider's current version of the alert (end and update time). Non-trivial: an update reached a live group after an earlier route of the same alert had been refused for the limit.",
		Gen:  genC14Limited, Exec: execC14Limited,
	})
}
